// Package world is the closed Kubernetes world the checks run the real Karpenter code in: controller-runtime's fake
// client on a plain object tracker, an intercepting client (call log, fault / scheduling hook, API-server behaviour the
// fake lacks), a deterministic "choice" cloud provider, a fake clock, the real cluster cache fed by the real informers.
package world

import (
	"context"
	"encoding/json"
	"fmt"
	"sort"
	"strings"
	"sync"
	"time"

	"github.com/go-logr/logr"
	appsv1 "k8s.io/api/apps/v1"
	corev1 "k8s.io/api/core/v1"
	policyv1 "k8s.io/api/policy/v1"
	storagev1 "k8s.io/api/storage/v1"
	"k8s.io/apimachinery/pkg/api/meta"
	"k8s.io/apimachinery/pkg/runtime"
	"k8s.io/apimachinery/pkg/types"
	"k8s.io/client-go/kubernetes/scheme"
	clienttesting "k8s.io/client-go/testing"
	"sigs.k8s.io/controller-runtime/pkg/client"
	"sigs.k8s.io/controller-runtime/pkg/client/apiutil"
	"sigs.k8s.io/controller-runtime/pkg/client/fake"
	"sigs.k8s.io/controller-runtime/pkg/log"
	"sigs.k8s.io/controller-runtime/pkg/reconcile"

	"sigs.k8s.io/karpenter/pkg/apis"
	v1 "sigs.k8s.io/karpenter/pkg/apis/v1"
	"sigs.k8s.io/karpenter/pkg/controllers/dynamicresources/deviceallocation"
	"sigs.k8s.io/karpenter/pkg/controllers/provisioning"
	"sigs.k8s.io/karpenter/pkg/controllers/state"
	"sigs.k8s.io/karpenter/pkg/controllers/state/informer"
	"sigs.k8s.io/karpenter/pkg/events"
	"sigs.k8s.io/karpenter/pkg/operator/options"
	"sigs.k8s.io/karpenter/pkg/state/cost"
	"sigs.k8s.io/karpenter/pkg/state/virtualpods"
	"sigs.k8s.io/karpenter/pkg/test/v1alpha1"
)

// Epoch is the instant every scenario starts at (a Monday, 12:00 UTC).
var Epoch = time.Date(2026, 1, 5, 12, 0, 0, 0, time.UTC)

var (
	schemeOnce sync.Once
	restMapper meta.RESTMapper
)

func initScheme() {
	schemeOnce.Do(func() {
		// karpenter v1 types and the test NodeClass register themselves in scheme.Scheme in their package init
		_ = apis.CRDs
		_ = v1alpha1.TestNodeClass{}
		restMapper = meta.NewDefaultRESTMapper(nil)
		rm := restMapper.(*meta.DefaultRESTMapper)
		for gvk := range scheme.Scheme.AllKnownTypes() {
			scope := meta.RESTScopeNamespace
			switch gvk.Kind {
			case "Node", "NodeClaim", "NodePool", "TestNodeClass", "PersistentVolume", "StorageClass", "CSINode", "VolumeAttachment",
				"Namespace", "NodeOverlay", "PriorityClass", "ResourceSlice", "DeviceClass", "ClusterRole", "ClusterRoleBinding", "CustomResourceDefinition":
				scope = meta.RESTScopeRoot
			}
			rm.Add(gvk, scope)
		}
	})
}

type Options struct {
	PreferencePolicy options.PreferencePolicy
	MinValuesPolicy  options.MinValuesPolicy
	CPURequests      int64 // millicores; number of scheduler workers = ceil(CPURequests/1000)
	ReservedCapacity bool
	SpotToSpot       bool
	StaticCapacity   bool
	NodeRepair       bool
	DRA              bool
	SchedulerConfig  *options.SchedulerConfiguration
}

// Call is one API or cloud-provider call made by code under test.
type Call struct {
	Seq    int
	Verb   string // get list create update patch delete status-patch status-update evict cp-create cp-delete cp-get cp-list
	Kind   string
	Name   string
	Sel    string // list selector (namespace / field / label), part of the call's identity
	Sub    string
	Err    string
	Note   string
	Object runtime.Object `json:"-"` // object as passed (after the call for writes)
	// ambiguous: the fault hook chose "applied, but reported as failed" (a timeout after the server committed the write):
	// the call is performed and, if it succeeded, this error is returned to the caller instead of nil
	ambiguous error
}

// AppliedButFailed reports an ambiguous outcome: the server committed the write, the caller got an error (observers that
// follow the API object must treat the call as applied).
func (c Call) AppliedButFailed() bool { return c.ambiguous != nil }

// Sig identifies a call independently of its position in the execution.
func (c Call) Sig() string { return c.Verb + ":" + c.Kind + ":" + c.Name + "{" + c.Sel + "}" }

func (c Call) String() string {
	s := fmt.Sprintf("%s %s/%s", c.Verb, c.Kind, c.Name)
	if c.Sel != "" {
		s += "{" + c.Sel + "}"
	}
	if c.Note != "" {
		s += " [" + c.Note + "]"
	}
	if c.Err != "" {
		s += " -> " + c.Err
	}
	return s
}

type World struct {
	persistent map[string]error // call signature -> error, see AttachFaultsOpt
	// AmbiguousWrites adds to the fault menu of every API write "500-applied": the write is committed and the caller is
	// told it failed (what a request timeout after the server's commit looks like)
	AmbiguousWrites bool
	Ctx     context.Context
	Opts    *options.Options
	Clock   *AutoClock
	Tracker clienttesting.ObjectTracker
	Raw     client.WithWatch
	Client  *IClient
	CP      *ChoiceProvider
	Cluster *state.Cluster
	Rec     *Recorder
	Cost    *cost.ClusterCost

	Prov        *provisioning.Provisioner
	DeviceAlloc *deviceallocation.Controller
	VPods       *virtualpods.Cache

	nodeInf *informer.NodeController
	podInf  *informer.PodController
	ncInf   *informer.NodeClaimController
	npInf   *informer.NodePoolController
	dsInf   *informer.DaemonSetController

	uidSeq int
	everNC, everNode map[string]bool // names ever delivered to the informers (to deliver their deletion later)
	// PodsFirst: SyncCluster delivers the Pod events first (their nodes are still unknown: the reconciles fail and are
	// not retried before SyncCluster returns) — the event order after a controller restart
	PodsFirst bool
}

type Recorder struct {
	mu     sync.Mutex
	Events []events.Event
}

func (r *Recorder) Publish(evs ...events.Event) {
	r.mu.Lock()
	defer r.mu.Unlock()
	if len(r.Events) < 10000 {
		r.Events = append(r.Events, evs...)
	}
}

func New(o Options) *World {
	initScheme()
	w := &World{}
	if o.PreferencePolicy == "" {
		o.PreferencePolicy = options.PreferencePolicyRespect
	}
	if o.MinValuesPolicy == "" {
		o.MinValuesPolicy = options.MinValuesPolicyStrict
	}
	if o.CPURequests == 0 {
		o.CPURequests = 1000
	}
	w.Opts = &options.Options{
		DisableControllerWarmup: true, MemoryLimit: -1, CPURequests: o.CPURequests,
		BatchMaxDuration: 10 * time.Second, BatchIdleDuration: time.Second,
		PreferencePolicy: o.PreferencePolicy, MinValuesPolicy: o.MinValuesPolicy, IgnoreDRARequests: !o.DRA,
		SchedulerConfig: o.SchedulerConfig,
		FeatureGates: options.FeatureGates{ReservedCapacity: o.ReservedCapacity, SpotToSpotConsolidation: o.SpotToSpot,
			StaticCapacity: o.StaticCapacity, NodeRepair: o.NodeRepair},
	}
	ctx := options.ToContext(context.Background(), w.Opts)
	ctx = log.IntoContext(ctx, logr.Discard())
	w.Ctx = ctx
	w.Clock = NewAutoClock(Epoch)
	w.Tracker = clienttesting.NewObjectTracker(scheme.Scheme, scheme.Codecs.UniversalDecoder())
	b := fake.NewClientBuilder().WithScheme(scheme.Scheme).WithObjectTracker(w.Tracker).WithRESTMapper(restMapper).
		WithStatusSubresource(&corev1.Node{}, &corev1.Pod{}, &v1.NodeClaim{}, &v1.NodePool{}, &v1alpha1.TestNodeClass{}).
		WithIndex(&corev1.Pod{}, "spec.nodeName", func(o client.Object) []string { return []string{o.(*corev1.Pod).Spec.NodeName} }).
		WithIndex(&corev1.Node{}, "spec.providerID", func(o client.Object) []string { return []string{o.(*corev1.Node).Spec.ProviderID} }).
		WithIndex(&storagev1.VolumeAttachment{}, "spec.nodeName", func(o client.Object) []string {
			return []string{o.(*storagev1.VolumeAttachment).Spec.NodeName}
		}).
		WithIndex(&v1.NodeClaim{}, "status.providerID", func(o client.Object) []string { return []string{o.(*v1.NodeClaim).Status.ProviderID} }).
		WithIndex(&v1.NodeClaim{}, "spec.nodeClassRef.group", func(o client.Object) []string { return []string{o.(*v1.NodeClaim).Spec.NodeClassRef.Group} }).
		WithIndex(&v1.NodeClaim{}, "spec.nodeClassRef.kind", func(o client.Object) []string { return []string{o.(*v1.NodeClaim).Spec.NodeClassRef.Kind} }).
		WithIndex(&v1.NodeClaim{}, "spec.nodeClassRef.name", func(o client.Object) []string { return []string{o.(*v1.NodeClaim).Spec.NodeClassRef.Name} }).
		WithIndex(&v1.NodePool{}, "spec.template.spec.nodeClassRef.group", func(o client.Object) []string {
			return []string{o.(*v1.NodePool).Spec.Template.Spec.NodeClassRef.Group}
		}).
		WithIndex(&v1.NodePool{}, "spec.template.spec.nodeClassRef.kind", func(o client.Object) []string {
			return []string{o.(*v1.NodePool).Spec.Template.Spec.NodeClassRef.Kind}
		}).
		WithIndex(&v1.NodePool{}, "spec.template.spec.nodeClassRef.name", func(o client.Object) []string {
			return []string{o.(*v1.NodePool).Spec.Template.Spec.NodeClassRef.Name}
		})
	w.Raw = b.Build()
	w.Client = &IClient{WithWatch: w.Raw, w: w}
	w.CP = NewChoiceProvider(w)
	w.Rec = &Recorder{}
	w.Cluster = state.NewCluster(w.Clock, w.Client, w.CP)
	w.Cost = cost.NewClusterCost(ctx, w.CP, w.Client)
	w.DeviceAlloc = deviceallocation.NewController(w.Client)
	w.VPods = virtualpods.NewVirtualPodCache(w.Client)
	w.Prov = provisioning.NewProvisioner(w.Client, w.Rec, w.CP, w.Cluster, w.Clock, w.DeviceAlloc, w.VPods)
	w.newInformers()
	return w
}

func (w *World) newInformers() {
	w.nodeInf = informer.NewNodeController(w.Client, w.Cluster)
	w.podInf = informer.NewPodController(w.Client, w.Cluster)
	w.ncInf = informer.NewNodeClaimController(w.Client, w.CP, w.Cluster, w.Cost)
	w.npInf = informer.NewNodePoolController(w.Client, w.CP, w.Cluster, w.Cost)
	w.dsInf = informer.NewDaemonSetController(w.Client, w.Cluster)
}

// NextUID returns deterministic UIDs.
func (w *World) NextUID(prefix string) types.UID {
	w.uidSeq++
	return types.UID(fmt.Sprintf("%s-%04d", prefix, w.uidSeq))
}

// Add writes environment objects straight into the API (never fault-injected, never logged).
func (w *World) Add(objs ...client.Object) {
	for _, o := range objs {
		if o.GetUID() == "" {
			o.SetUID(w.NextUID("uid"))
		}
		if ct := o.GetCreationTimestamp(); ct.IsZero() {
			o.SetCreationTimestamp(metaTime(w.Clock.Now()))
		}
		dt := o.GetDeletionTimestamp()
		if err := w.Raw.Create(w.Ctx, o); err != nil {
			panic(fmt.Sprintf("world.Add %T %s: %v", o, o.GetName(), err))
		}
		if dt != nil { // the fake strips deletionTimestamp on create
			o.SetDeletionTimestamp(dt)
			w.EnvUpdate(o)
		}
	}
}

// EnvUpdate overwrites an object (spec and status) as the environment.
func (w *World) EnvUpdate(o client.Object) {
	gvk, err := apiutil.GVKForObject(o, scheme.Scheme)
	if err != nil {
		panic(err)
	}
	m, err := restMapper.RESTMapping(gvk.GroupKind(), gvk.Version)
	if err != nil {
		panic(err)
	}
	o.SetResourceVersion(bumpRV(o.GetResourceVersion()))
	if err := w.Tracker.Update(m.Resource, o, o.GetNamespace()); err != nil {
		panic(fmt.Sprintf("EnvUpdate %T %s: %v", o, o.GetName(), err))
	}
}

// EnvDelete removes an object outright (no finalizer handling), as the environment.
func (w *World) EnvDelete(o client.Object) {
	gvk, _ := apiutil.GVKForObject(o, scheme.Scheme)
	m, _ := restMapper.RESTMapping(gvk.GroupKind(), gvk.Version)
	_ = w.Tracker.Delete(m.Resource, o.GetNamespace(), o.GetName())
}

func bumpRV(rv string) string {
	n := 0
	fmt.Sscan(rv, &n)
	return fmt.Sprint(n + 1)
}

func req(o client.Object) reconcile.Request {
	return reconcile.Request{NamespacedName: client.ObjectKeyFromObject(o)}
}

// SyncCluster delivers the latest version of every object to the real informer reconcilers, in a canonical order
// (NodePools, NodeClaims, Nodes, Pods, DaemonSets), including deletions of objects the cache still knows.
func (w *World) SyncCluster() {
	ctx := w.Ctx
	w.Client.Quiet++
	defer func() { w.Client.Quiet-- }()
	if w.PodsFirst {
		// start-up order of a restarted controller: the Pod events are reconciled BEFORE the cache knows their nodes (each
		// fails with NotFound and is requeued with back-off), then the rest arrives; the retries have not fired yet when
		// the caller goes on (Cluster.Synced looks at Nodes and NodeClaims only)
		pods := &corev1.PodList{}
		must(w.Raw.List(ctx, pods))
		for i := range pods.Items {
			_, _ = w.podInf.Reconcile(ctx, req(&pods.Items[i]))
		}
	}
	nps := &v1.NodePoolList{}
	must(w.Raw.List(ctx, nps))
	for i := range nps.Items {
		must2(w.npInf.Reconcile(ctx, req(&nps.Items[i])))
	}
	ncs := &v1.NodeClaimList{}
	must(w.Raw.List(ctx, ncs))
	if w.everNC == nil {
		w.everNC, w.everNode = map[string]bool{}, map[string]bool{}
	}
	seenNC := map[string]bool{}
	for i := range ncs.Items {
		seenNC[ncs.Items[i].Name] = true
		w.everNC[ncs.Items[i].Name] = true
		must2(w.ncInf.Reconcile(ctx, req(&ncs.Items[i])))
	}
	nodes := &corev1.NodeList{}
	must(w.Raw.List(ctx, nodes))
	seenNode := map[string]bool{}
	for i := range nodes.Items {
		seenNode[nodes.Items[i].Name] = true
		w.everNode[nodes.Items[i].Name] = true
		must2(w.nodeInf.Reconcile(ctx, req(&nodes.Items[i])))
	}
	// deliver deletions for anything the cache still holds
	var goneNC, goneNode []string
	for n := range w.Cluster.Nodes() {
		if n.NodeClaim != nil && !seenNC[n.NodeClaim.Name] {
			goneNC = append(goneNC, n.NodeClaim.Name)
		}
		if n.Node != nil && !seenNode[n.Node.Name] {
			goneNode = append(goneNode, n.Node.Name)
		}
	}
	for n := range w.everNC {
		if !seenNC[n] {
			goneNC = append(goneNC, n)
			delete(w.everNC, n)
		}
	}
	for n := range w.everNode {
		if !seenNode[n] {
			goneNode = append(goneNode, n)
			delete(w.everNode, n)
		}
	}
	sort.Strings(goneNC)
	sort.Strings(goneNode)
	for _, n := range goneNC {
		must2(w.ncInf.Reconcile(ctx, reconcile.Request{NamespacedName: types.NamespacedName{Name: n}}))
	}
	for _, n := range goneNode {
		must2(w.nodeInf.Reconcile(ctx, reconcile.Request{NamespacedName: types.NamespacedName{Name: n}}))
	}
	pods := &corev1.PodList{}
	must(w.Raw.List(ctx, pods))
	for i := range pods.Items {
		if w.PodsFirst {
			break
		}
		must2(w.podInf.Reconcile(ctx, req(&pods.Items[i])))
	}
	dss := &appsv1.DaemonSetList{}
	must(w.Raw.List(ctx, dss))
	for i := range dss.Items {
		must2(w.dsInf.Reconcile(ctx, req(&dss.Items[i])))
	}
}

func (w *World) PodGone(ns, name string) {
	w.Client.Quiet++
	defer func() { w.Client.Quiet-- }()
	must2(w.podInf.Reconcile(w.Ctx, reconcile.Request{NamespacedName: types.NamespacedName{Namespace: ns, Name: name}}))
}

func must(err error) {
	if err != nil {
		panic(err)
	}
}
func must2(_ reconcile.Result, err error) {
	if err != nil {
		panic(err)
	}
}

// Informers is a set of the real state informer reconcilers bound to one cluster cache.
type Informers struct {
	w       *World
	Cluster *state.Cluster
	node    *informer.NodeController
	pod     *informer.PodController
	nc      *informer.NodeClaimController
	np      *informer.NodePoolController
	ds      *informer.DaemonSetController
}

func (w *World) NewInformers(c *state.Cluster) *Informers {
	cc := cost.NewClusterCost(w.Ctx, w.CP, w.Client)
	return &Informers{w: w, Cluster: c, node: informer.NewNodeController(w.Client, c), pod: informer.NewPodController(w.Client, c),
		nc: informer.NewNodeClaimController(w.Client, w.CP, c, cc), np: informer.NewNodePoolController(w.Client, w.CP, c, cc), ds: informer.NewDaemonSetController(w.Client, c)}
}

// Deliver runs the real informer reconcile for one key (level-triggered: it reads the latest version, or learns the
// object is gone). Returns the reconcile error, if any.
func (i *Informers) Deliver(kind, ns, name string) error {
	_, err := i.DeliverR(kind, ns, name)
	return err
}

// DeliverLoud is Deliver without touching the Quiet counter (free-running threads).
func (i *Informers) DeliverLoud(kind, ns, name string) error {
	_, err := i.deliver(kind, ns, name)
	return err
}

// DeliverR also reports whether the reconcile asked for an immediate requeue (the key has not been fully observed yet).
func (i *Informers) DeliverR(kind, ns, name string) (bool, error) {
	i.w.Client.Quiet++
	defer func() { i.w.Client.Quiet-- }()
	return i.deliver(kind, ns, name)
}

func (i *Informers) deliver(kind, ns, name string) (bool, error) {
	r := reconcile.Request{NamespacedName: types.NamespacedName{Namespace: ns, Name: name}}
	var err error
	var res reconcile.Result
	switch kind {
	case "Node":
		res, err = i.node.Reconcile(i.w.Ctx, r)
	case "Pod":
		res, err = i.pod.Reconcile(i.w.Ctx, r)
	case "NodeClaim":
		res, err = i.nc.Reconcile(i.w.Ctx, r)
	case "NodePool":
		res, err = i.np.Reconcile(i.w.Ctx, r)
	case "DaemonSet":
		res, err = i.ds.Reconcile(i.w.Ctx, r)
	}
	return res.Requeue, err //nolint:staticcheck
}

// DigestAPI returns a canonical dump of every API object (including resourceVersions: any write changes it).
func (w *World) DigestAPI() string {
	lists := []client.ObjectList{&corev1.NodeList{}, &v1.NodeClaimList{}, &v1.NodePoolList{}, &corev1.PodList{}, &appsv1.DaemonSetList{},
		&corev1.PersistentVolumeClaimList{}, &corev1.PersistentVolumeList{}, &storagev1.StorageClassList{}, &storagev1.CSINodeList{}, &storagev1.VolumeAttachmentList{}, &policyv1.PodDisruptionBudgetList{}}
	var parts []string
	for _, l := range lists {
		if err := w.Raw.List(w.Ctx, l); err != nil {
			parts = append(parts, fmt.Sprintf("%T: %v", l, err))
			continue
		}
		items, _ := meta.ExtractList(l)
		for _, it := range items {
			b, _ := json.Marshal(it)
			parts = append(parts, fmt.Sprintf("%T %s", it, b))
		}
	}
	sort.Strings(parts)
	return strings.Join(parts, "\n")
}

// DigestCatalog dumps the provider's instance types and offerings INCLUDING slice order, availability, prices and
// reservation counts.
func (w *World) DigestCatalog() string {
	var sb strings.Builder
	names := make([]string, 0, len(w.CP.Catalog))
	for n := range w.CP.Catalog {
		names = append(names, n)
	}
	sort.Strings(names)
	for _, n := range names {
		fmt.Fprintf(&sb, "catalog %q:\n", n)
		for _, it := range w.CP.Catalog[n] {
			reqs := make([]string, 0)
			for _, r := range it.Requirements {
				reqs = append(reqs, r.String())
			}
			sort.Strings(reqs)
			fmt.Fprintf(&sb, " %s cap=%v reqs=%v\n", it.Name, resourceString(it.Capacity), reqs)
			for _, o := range it.Offerings {
				oreqs := make([]string, 0)
				for _, r := range o.Requirements {
					oreqs = append(oreqs, r.String())
				}
				sort.Strings(oreqs)
				fmt.Fprintf(&sb, "   offering %v price=%v available=%v reservation=%d override=%v\n", oreqs, o.Price, o.Available, o.ReservationCapacity, resourceString(o.CapacityOverride))
			}
		}
	}
	return sb.String()
}

func resourceString(rl corev1.ResourceList) string {
	keys := make([]string, 0, len(rl))
	for k := range rl {
		keys = append(keys, string(k))
	}
	sort.Strings(keys)
	var parts []string
	for _, k := range keys {
		q := rl[corev1.ResourceName(k)]
		parts = append(parts, k+"="+q.String())
	}
	return strings.Join(parts, ",")
}

// WriteCalls returns the logged calls that mutate the API or the provider.
func (w *World) WriteCalls() []string {
	var out []string
	for _, c := range w.Client.Log {
		switch c.Verb {
		case "get", "list", "cp-get", "cp-list":
		default:
			out = append(out, c.String())
		}
	}
	return out
}

// RebindInformers points the informer reconcilers at the world's current Cluster (after a simulated restart).
func (w *World) RebindInformers() { w.newInformers() }
