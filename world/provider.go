package world

import (
	"context"
	"fmt"
	"sort"

	"github.com/awslabs/operatorpkg/status"
	"github.com/samber/lo"
	corev1 "k8s.io/api/core/v1"
	metav1 "k8s.io/apimachinery/pkg/apis/meta/v1"
	"k8s.io/apimachinery/pkg/api/resource"

	v1 "sigs.k8s.io/karpenter/pkg/apis/v1"
	"sigs.k8s.io/karpenter/pkg/cloudprovider"
	"sigs.k8s.io/karpenter/pkg/test/v1alpha1"
)

// Launch is one launch the provider is permitted to make for a NodeClaim request.
type Launch struct {
	Type     *cloudprovider.InstanceType
	Offering *cloudprovider.Offering
	Alloc    corev1.ResourceList
}

func (l Launch) String() string {
	return fmt.Sprintf("%s/%s/%s", l.Type.Name, OfferingZone(l.Offering), OfferingCT(l.Offering))
}

type Instance struct {
	ProviderID  string
	NodeClaim   *v1.NodeClaim // as returned by Create
	Launch      Launch
	Terminating bool // Delete accepted; still listed until the environment removes it
	Gone        bool
}

// ChoiceProvider is a deterministic cloud provider. Create computes the set of launches the request permits (from the
// harness's own LabelSet oracle, not from Karpenter's Compatible) and asks Pick which one to make; Delete is two-phase.
type ChoiceProvider struct {
	w *World
	// Catalog per NodePool name; "" is the default.
	Catalog map[string][]*cloudprovider.InstanceType
	// Pick chooses among permitted launches (index); nil => 0 (cheapest).
	Pick func(nc *v1.NodeClaim, permitted []Launch) int
	// Hook is the fault/scheduling choice point for provider calls; may return an error to inject.
	Hook func(c *Call) error
	// ImmediateDelete: Delete removes the instance at once and returns nil; the next Delete returns NotFound.
	ImmediateDelete bool

	Instances   []*Instance
	CreateCalls []*v1.NodeClaim
	Drifted     cloudprovider.DriftReason
	Repair      []cloudprovider.RepairPolicy
	seq         int
}

func NewChoiceProvider(w *World) *ChoiceProvider {
	return &ChoiceProvider{w: w, Catalog: map[string][]*cloudprovider.InstanceType{}}
}

// begin announces a provider call to the hook (fault / scheduling choice point); end logs it and notifies the observer.
func (c *ChoiceProvider) begin(verb, name string) (*Call, error) {
	call := &Call{Verb: verb, Kind: "Instance", Name: name}
	var err error
	if c.w.Client.Sched != nil && c.w.Client.Quiet == 0 {
		c.w.Client.Sched(verb + " Instance/" + name)
	}
	if c.Hook != nil && c.w.Client.Quiet == 0 {
		err = c.Hook(call)
	}
	if err != nil {
		c.end(call, err)
	}
	return call, err
}

func (c *ChoiceProvider) end(call *Call, err error) {
	if c.w.Client.Quiet > 0 {
		return
	}
	if err != nil {
		call.Err = errString(err)
	}
	c.w.Client.mu.Lock()
	c.w.Client.seq++
	call.Seq = c.w.Client.seq
	c.w.Client.Log = append(c.w.Client.Log, *call)
	after := c.w.Client.After
	c.w.Client.mu.Unlock()
	if after != nil {
		after(call)
	}
}

func (c *ChoiceProvider) catalogFor(pool string) []*cloudprovider.InstanceType {
	if its, ok := c.Catalog[pool]; ok {
		return its
	}
	return c.Catalog[""]
}

// Permitted computes the launches the NodeClaim request permits, cheapest first (ties by name, zone, capacity type).
func (c *ChoiceProvider) Permitted(nc *v1.NodeClaim) []Launch {
	var out []Launch
	for _, it := range c.catalogFor(nc.Labels[v1.NodePoolLabelKey]) {
		if !TypeAdmittedBy(it, nc.Spec.Requirements) {
			continue
		}
		for _, ao := range it.AllocatableOfferingsList() {
			for _, of := range ao.Offerings {
				if !of.Available || !OfferingAdmittedBy(of, nc.Spec.Requirements) {
					continue
				}
				if !fitsRL(nc.Spec.Resources.Requests, ao.Allocatable) {
					continue
				}
				out = append(out, Launch{Type: it, Offering: of, Alloc: ao.Allocatable})
			}
		}
	}
	sort.SliceStable(out, func(i, j int) bool {
		if out[i].Offering.Price != out[j].Offering.Price {
			return out[i].Offering.Price < out[j].Offering.Price
		}
		return out[i].String() < out[j].String()
	})
	// The cheapest launch stays first (the default choice). After it come the cheapest launch of every OTHER instance
	// type, then everything else by price: drivers that enumerate "up to k launches per claim" thereby cover every
	// permitted instance type before they cover further zones / capacity types of the same type.
	var reps, rest []Launch
	seen := map[string]bool{}
	for _, l := range out {
		if !seen[l.Type.Name] {
			seen[l.Type.Name] = true
			reps = append(reps, l)
		} else {
			rest = append(rest, l)
		}
	}
	return append(reps, rest...)
}

func fitsRL(req, alloc corev1.ResourceList) bool {
	for k, v := range req {
		a, ok := alloc[k]
		if !ok {
			a = resource.Quantity{}
		}
		if v.Cmp(a) > 0 {
			return false
		}
	}
	return true
}

func (c *ChoiceProvider) Create(ctx context.Context, nc *v1.NodeClaim) (*v1.NodeClaim, error) {
	call, err := c.begin("cp-create", nc.Name)
	if err != nil {
		return nil, err
	}
	c.CreateCalls = append(c.CreateCalls, nc.DeepCopy())
	permitted := c.Permitted(nc)
	if len(permitted) == 0 {
		err := cloudprovider.NewInsufficientCapacityError(fmt.Errorf("no permitted launch for %s", nc.Name))
		c.end(call, err)
		return nil, err
	}
	idx := 0
	if c.Pick != nil {
		idx = c.Pick(nc, permitted)
	}
	l := permitted[idx]
	labels := map[string]string{}
	for key, r := range l.Type.Requirements {
		if r.Operator() == corev1.NodeSelectorOpIn && r.Len() == 1 {
			labels[key] = r.Values()[0]
		}
	}
	for key, r := range l.Offering.Requirements {
		if r.Operator() == corev1.NodeSelectorOpIn && r.Len() == 1 {
			labels[key] = r.Values()[0]
		}
	}
	if l.Offering.CapacityType() == v1.CapacityTypeReserved {
		l.Offering.ReservationCapacity--
		if l.Offering.ReservationCapacity <= 0 {
			l.Offering.Available = false
		}
	}
	c.seq++
	pid := fmt.Sprintf("choice://i-%04d", c.seq)
	created := &v1.NodeClaim{
		ObjectMeta: metav1.ObjectMeta{Name: nc.Name, Labels: lo.Assign(labels, nc.Labels), Annotations: nc.Annotations},
		Spec:       *nc.Spec.DeepCopy(),
		Status: v1.NodeClaimStatus{ProviderID: pid,
			Capacity:    nonZero(l.Type.Capacity),
			Allocatable: nonZero(l.Alloc)},
	}
	c.Instances = append(c.Instances, &Instance{ProviderID: pid, NodeClaim: created, Launch: l})
	call.Note = l.String()
	c.end(call, nil)
	return created.DeepCopy(), nil
}

func nonZero(rl corev1.ResourceList) corev1.ResourceList {
	out := corev1.ResourceList{}
	for k, v := range rl {
		if !v.IsZero() {
			out[k] = v.DeepCopy()
		}
	}
	return out
}

func (c *ChoiceProvider) Instance(pid string) *Instance {
	for _, i := range c.Instances {
		if i.ProviderID == pid && !i.Gone {
			return i
		}
	}
	return nil
}

func (c *ChoiceProvider) Live() []*Instance {
	return lo.Filter(c.Instances, func(i *Instance, _ int) bool { return !i.Gone })
}

func (c *ChoiceProvider) Delete(ctx context.Context, nc *v1.NodeClaim) error {
	call, err := c.begin("cp-delete", nc.Name)
	if err != nil {
		return err
	}
	i := c.Instance(nc.Status.ProviderID)
	if i == nil {
		err := cloudprovider.NewNodeClaimNotFoundError(fmt.Errorf("instance %q not found", nc.Status.ProviderID))
		call.Err = "NodeClaimNotFound"
		c.end(call, nil)
		return err
	}
	if c.ImmediateDelete {
		i.Gone = true
	} else {
		i.Terminating = true
	}
	c.end(call, nil)
	return nil
}

func (c *ChoiceProvider) Get(ctx context.Context, pid string) (*v1.NodeClaim, error) {
	call, err := c.begin("cp-get", pid)
	if err != nil {
		return nil, err
	}
	i := c.Instance(pid)
	if i == nil {
		call.Err = "NodeClaimNotFound"
		c.end(call, nil)
		return nil, cloudprovider.NewNodeClaimNotFoundError(fmt.Errorf("instance %q not found", pid))
	}
	c.end(call, nil)
	return i.NodeClaim.DeepCopy(), nil
}

func (c *ChoiceProvider) List(ctx context.Context) ([]*v1.NodeClaim, error) {
	call, err := c.begin("cp-list", "")
	if err != nil {
		return nil, err
	}
	c.end(call, nil)
	return lo.Map(c.Live(), func(i *Instance, _ int) *v1.NodeClaim { return i.NodeClaim.DeepCopy() }), nil
}

func (c *ChoiceProvider) GetInstanceTypes(ctx context.Context, np *v1.NodePool) ([]*cloudprovider.InstanceType, error) {
	if np == nil {
		return c.Catalog[""], nil
	}
	return c.catalogFor(np.Name), nil
}

func (c *ChoiceProvider) IsDrifted(ctx context.Context, nc *v1.NodeClaim) (cloudprovider.DriftReason, error) {
	return c.Drifted, nil
}
func (c *ChoiceProvider) RepairPolicies() []cloudprovider.RepairPolicy { return c.Repair }
func (c *ChoiceProvider) Name() string                                  { return "choice" }
func (c *ChoiceProvider) GetSupportedNodeClasses() []status.Object {
	return []status.Object{&v1alpha1.TestNodeClass{}}
}
