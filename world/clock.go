package world

import (
	"sync"
	"time"

	"k8s.io/utils/clock"
)

// AutoClock is the scenario clock. Time only moves when the harness steps it, or when code under test blocks on it:
// Sleep(d) and After(d) call OnWait(d) — the slot in which a driver may inject "what happens during the wait" — and
// then advance the clock by exactly d and return at once. Timers (NewTimer) behave like k8s' FakeClock timers: they fire
// when the clock is stepped past their deadline.
type AutoClock struct {
	mu     sync.Mutex
	now    time.Time
	timers []*autoTimer
	// OnWait is called (without the lock) before the clock advances for a Sleep/After of duration d.
	OnWait func(d time.Duration)
	Waits  []time.Duration // every Sleep/After duration observed
}

var _ clock.WithTicker = (*AutoClock)(nil)

func NewAutoClock(t time.Time) *AutoClock { return &AutoClock{now: t} }

func (c *AutoClock) Now() time.Time {
	c.mu.Lock()
	defer c.mu.Unlock()
	return c.now
}
func (c *AutoClock) Since(t time.Time) time.Duration { return c.Now().Sub(t) }

func (c *AutoClock) wait(d time.Duration) time.Time {
	if c.OnWait != nil {
		c.OnWait(d)
	}
	c.mu.Lock()
	c.Waits = append(c.Waits, d)
	c.mu.Unlock()
	c.Step(d)
	return c.Now()
}

func (c *AutoClock) Sleep(d time.Duration) { c.wait(d) }
func (c *AutoClock) After(d time.Duration) <-chan time.Time {
	ch := make(chan time.Time, 1)
	ch <- c.wait(d)
	return ch
}
func (c *AutoClock) Tick(d time.Duration) <-chan time.Time { return c.NewTicker(d).C() }

// Step advances the clock and fires the timers that become due.
func (c *AutoClock) Step(d time.Duration) {
	c.mu.Lock()
	c.now = c.now.Add(d)
	now := c.now
	var keep []*autoTimer
	var fire []*autoTimer
	for _, t := range c.timers {
		if !t.deadline.After(now) {
			fire = append(fire, t)
		} else {
			keep = append(keep, t)
		}
	}
	c.timers = keep
	c.mu.Unlock()
	for _, t := range fire {
		select {
		case t.ch <- now:
		default:
		}
	}
}

func (c *AutoClock) SetTime(t time.Time) {
	if d := t.Sub(c.Now()); d > 0 {
		c.Step(d)
	}
}

// PendingTimers returns the number of armed timers (used by the batcher stepper).
func (c *AutoClock) PendingTimers() int {
	c.mu.Lock()
	defer c.mu.Unlock()
	return len(c.timers)
}

type autoTimer struct {
	c        *AutoClock
	ch       chan time.Time
	deadline time.Time
}

func (c *AutoClock) NewTimer(d time.Duration) clock.Timer {
	c.mu.Lock()
	defer c.mu.Unlock()
	t := &autoTimer{c: c, ch: make(chan time.Time, 1), deadline: c.now.Add(d)}
	c.timers = append(c.timers, t)
	return t
}

func (t *autoTimer) C() <-chan time.Time { return t.ch }
func (t *autoTimer) Stop() bool {
	t.c.mu.Lock()
	defer t.c.mu.Unlock()
	for i, x := range t.c.timers {
		if x == t {
			t.c.timers = append(t.c.timers[:i], t.c.timers[i+1:]...)
			return true
		}
	}
	return false
}
func (t *autoTimer) Reset(d time.Duration) bool {
	active := t.Stop()
	t.c.mu.Lock()
	defer t.c.mu.Unlock()
	t.deadline = t.c.now.Add(d)
	t.c.timers = append(t.c.timers, t)
	return active
}

type autoTicker struct{ ch chan time.Time }

func (c *AutoClock) NewTicker(d time.Duration) clock.Ticker { return &autoTicker{ch: make(chan time.Time)} }
func (t *autoTicker) C() <-chan time.Time                 { return t.ch }
func (t *autoTicker) Stop()                               {}
