package world

import (
	"fmt"

	apierrors "k8s.io/apimachinery/pkg/api/errors"
	"k8s.io/apimachinery/pkg/runtime/schema"

	"sigs.k8s.io/karpenter/pkg/cloudprovider"

	"verif/internal/explore"
)

// Fault is one injectable outcome of a call.
type Fault struct {
	Name string
	Err  error
}

// FaultMenu lists the failures that are legal for a call: a transient server error for everything; a Conflict for
// writes that carry an optimistic lock; for the provider a generic error, and for Create the capacity errors.
func FaultMenu(c *Call) []Fault {
	gr := schema.GroupResource{Resource: c.Kind}
	transient := Fault{"500", apierrors.NewInternalError(fmt.Errorf("injected transient failure"))}
	switch c.Verb {
	case "get", "list", "create", "delete", "evict", "update", "deleteallof":
		return []Fault{transient}
	case "patch", "status-patch", "status-update":
		f := []Fault{transient}
		if contains(c.Note, "optlock") || c.Verb == "status-update" {
			f = append(f, Fault{"409", apierrors.NewConflict(gr, c.Name, fmt.Errorf("injected conflict"))})
		}
		return f
	case "cp-create":
		return []Fault{{"cp-error", fmt.Errorf("injected provider failure")},
			{"ICE", cloudprovider.NewInsufficientCapacityError(fmt.Errorf("injected insufficient capacity"))},
			{"NodeClassNotReady", cloudprovider.NewNodeClassNotReadyError(fmt.Errorf("injected nodeclass not ready"))}}
	case "cp-delete", "cp-get", "cp-list":
		return []Fault{{"cp-error", fmt.Errorf("injected provider failure")}}
	}
	return nil
}

func contains(s, sub string) bool {
	for i := 0; i+len(sub) <= len(s); i++ {
		if s[i:i+len(sub)] == sub {
			return true
		}
	}
	return false
}

// Injected records which faults an execution took.
type Injected struct {
	Seq   int
	Call  string
	Fault string
}

// AttachFaults makes every call of code under test (API and provider) a fault choice point of the run. only (optional)
// restricts which calls may fail. Returns the list that is filled with the faults taken.
func (w *World) AttachFaults(run *explore.Run, only func(c *Call) bool) *[]Injected {
	return w.AttachFaultsOpt(run, only, false)
}

// ClearPersistentFaults ends every persistent fault (drivers call it at the end of a step: a persistent fault models a
// call that keeps failing for as long as the code under test retries it within one reconcile).
func (w *World) ClearPersistentFaults() { w.persistent = nil }

// AttachFaultsOpt is AttachFaults; with persistent the menu of every API call also offers a failure that PERSISTS: every
// later call with the same signature fails too, until ClearPersistentFaults. A transient failure is absorbed by code that
// retries (retry.OnError around a get+patch); a persistent one is not.
func (w *World) AttachFaultsOpt(run *explore.Run, only func(c *Call) bool, persistent bool) *[]Injected {
	var taken []Injected
	hook := func(c *Call) error {
		if err, ok := w.persistent[c.Sig()]; ok {
			c.Note = joinNote(c.Note, "INJECTED:persisting")
			return err
		}
		if only != nil && !only(c) {
			return nil
		}
		menu := FaultMenu(c)
		if len(menu) == 0 {
			return nil
		}
		if persistent && menu[0].Name == "500" {
			menu = append(menu, Fault{"500-persistent", menu[0].Err})
		}
		if w.AmbiguousWrites && menu[0].Name == "500" && c.Verb != "get" && c.Verb != "list" {
			menu = append(menu, Fault{"500-applied", menu[0].Err})
		}
		// keyed by call signature + occurrence, not by position: the order of independent calls may follow Go map
		// iteration order, which the harness does not own
		k := run.ChooseKeyed("fault:"+c.Sig(), len(menu)+1)
		if k == 0 {
			return nil
		}
		f := menu[k-1]
		if f.Name == "500-persistent" {
			if w.persistent == nil {
				w.persistent = map[string]error{}
			}
			w.persistent[c.Sig()] = f.Err
		}
		taken = append(taken, Injected{Seq: c.Seq, Call: c.String(), Fault: f.Name})
		c.Note = joinNote(c.Note, "INJECTED:"+f.Name)
		if f.Name == "500-applied" {
			// ambiguous failure: the server commits the write, the caller sees a 500 (IClient.end substitutes the error)
			c.ambiguous = f.Err
			return nil
		}
		return f.Err
	}
	w.Client.Hook = hook
	w.CP.Hook = hook
	return &taken
}

// WritesAndProvider restricts fault points to API writes and provider calls (reads never fail).
func WritesAndProvider(c *Call) bool {
	switch c.Verb {
	case "get", "list":
		return false
	}
	return true
}

func joinNote(a, b string) string {
	if a == "" {
		return b
	}
	return a + "," + b
}

// AttachInterleave lets the ENVIRONMENT act in the middle of a reconcile: before any API or provider call of the code
// under test, one event of a fixed, named menu may happen (a keyed choice point "env@<call>", one deviation). names is the
// static superset of event names of the scenario; fire(name) performs the event if it is currently enabled and reports
// whether it was. Calls the event itself makes are neither logged nor choice points.
func (w *World) AttachInterleave(run *explore.Run, names []string, fire func(name, before string) bool) {
	w.AttachInterleaveOpt(run, names, fire, false)
}

// AttachInterleaveOpt: with afterToo the events may also happen right AFTER any call returned ("after <call>"), which
// differs from "before the next call" exactly when the code reads in-memory state (the cluster cache) in between.
func (w *World) AttachInterleaveOpt(run *explore.Run, names []string, fire func(name, before string) bool, afterToo bool) {
	if len(names) == 0 {
		return
	}
	in := false
	point := func(prefix string) func(label string) {
		return func(label string) {
			if in {
				return
			}
			k := run.ChooseKeyed("env@"+prefix+label, len(names)+1)
			if k == 0 {
				return
			}
			in = true
			defer func() { in = false }()
			w.Client.Quiet++
			fire(names[k-1], prefix+label)
			w.Client.Quiet--
		}
	}
	w.Client.Sched = point("")
	if afterToo {
		w.Client.SchedAfter = point("after ")
	}
}
