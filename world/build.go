package world

import (
	"fmt"
	"sort"
	"time"

	"github.com/awslabs/operatorpkg/status"
	appsv1 "k8s.io/api/apps/v1"
	corev1 "k8s.io/api/core/v1"
	"k8s.io/apimachinery/pkg/api/resource"
	metav1 "k8s.io/apimachinery/pkg/apis/meta/v1"
	"k8s.io/apimachinery/pkg/types"

	v1 "sigs.k8s.io/karpenter/pkg/apis/v1"
	"sigs.k8s.io/karpenter/pkg/cloudprovider"
	"sigs.k8s.io/karpenter/pkg/scheduling"
	"sigs.k8s.io/karpenter/pkg/test/v1alpha1"
)

// FamKey is a provider-defined well-known instance label (as real providers register); TeamKey is a custom label.
const (
	FamKey  = "verif.io/fam"
	GenKey  = "verif.io/gen" // numeric provider label
	TeamKey = "team"
)

func init() {
	// what a cloud provider does in its package init
	v1.WellKnownLabels.Insert(FamKey, GenKey, v1alpha1.LabelReservationID)
	cloudprovider.ReservationIDLabel = v1alpha1.LabelReservationID
	cloudprovider.ReservedCapacityLabels.Insert(v1alpha1.LabelReservationID)
}

// OfSpec / ITSpec are the harness's own description of a catalog; oracles read these, never the provider objects.
type OfSpec struct {
	Zone, CT  string
	Price     float64
	Available bool
	RID       string // reservation id (CT must be "reserved")
	ResCap    int
	OverCPU   int // capacity override for cpu in whole cores (0 = none)
}

type ITSpec struct {
	Name     string
	CPU      int // cores
	MemGi    int
	Pods     int
	Arch     string
	Fam      string // "" => label does not exist on this type
	Gen      string // numeric label value, "" => does not exist
	Ext      map[string]int
	Offers   []OfSpec
	OverCPUm int // kube-reserved cpu millicores (default 100)
}

func (s ITSpec) OverheadCPUm() int64 {
	if s.OverCPUm != 0 {
		return int64(s.OverCPUm)
	}
	return 100
}

// AllocMilli returns the allocatable of a launch of this type through offering o, in milli-units (cpu) / bytes (memory).
func (s ITSpec) AllocCPUm(o OfSpec) int64 {
	c := s.CPU
	if o.OverCPU != 0 {
		c = o.OverCPU
	}
	return int64(c)*1000 - s.OverheadCPUm()
}
func (s ITSpec) AllocMem() int64 { return int64(s.MemGi)<<30 - 10<<20 }

func BuildCatalog(specs []ITSpec) []*cloudprovider.InstanceType {
	var out []*cloudprovider.InstanceType
	for _, s := range specs {
		capacity := corev1.ResourceList{
			corev1.ResourceCPU:    resource.MustParse(fmt.Sprint(s.CPU)),
			corev1.ResourceMemory: resource.MustParse(fmt.Sprintf("%dGi", s.MemGi)),
			corev1.ResourcePods:   resource.MustParse(fmt.Sprint(s.Pods)),
		}
		extKeys := make([]string, 0, len(s.Ext))
		for k := range s.Ext {
			extKeys = append(extKeys, k)
		}
		sort.Strings(extKeys)
		for _, k := range extKeys {
			capacity[corev1.ResourceName(k)] = resource.MustParse(fmt.Sprint(s.Ext[k]))
		}
		var ofs cloudprovider.Offerings
		zones, cts := []string{}, []string{}
		for _, o := range s.Offers {
			lbl := map[string]string{corev1.LabelTopologyZone: o.Zone, v1.CapacityTypeLabelKey: o.CT}
			if o.RID != "" {
				lbl[cloudprovider.ReservationIDLabel] = o.RID
			}
			of := &cloudprovider.Offering{Requirements: scheduling.NewLabelRequirements(lbl), Price: o.Price, Available: o.Available, ReservationCapacity: o.ResCap}
			if o.RID == "" {
				of.Requirements.Add(scheduling.NewRequirement(cloudprovider.ReservationIDLabel, corev1.NodeSelectorOpDoesNotExist))
			}
			if o.OverCPU != 0 {
				of.CapacityOverride = corev1.ResourceList{corev1.ResourceCPU: resource.MustParse(fmt.Sprint(o.OverCPU))}
			}
			ofs = append(ofs, of)
			if o.Available {
				zones = append(zones, o.Zone)
				cts = append(cts, o.CT)
			}
		}
		arch := s.Arch
		if arch == "" {
			arch = "amd64"
		}
		reqs := scheduling.NewRequirements(
			scheduling.NewRequirement(corev1.LabelInstanceTypeStable, corev1.NodeSelectorOpIn, s.Name),
			scheduling.NewRequirement(corev1.LabelArchStable, corev1.NodeSelectorOpIn, arch),
			scheduling.NewRequirement(corev1.LabelOSStable, corev1.NodeSelectorOpIn, "linux"),
			scheduling.NewRequirement(corev1.LabelTopologyZone, corev1.NodeSelectorOpIn, zones...),
			scheduling.NewRequirement(v1.CapacityTypeLabelKey, corev1.NodeSelectorOpIn, cts...),
		)
		if s.Fam != "" {
			reqs.Add(scheduling.NewRequirement(FamKey, corev1.NodeSelectorOpIn, s.Fam))
		} else {
			reqs.Add(scheduling.NewRequirement(FamKey, corev1.NodeSelectorOpDoesNotExist))
		}
		if s.Gen != "" {
			reqs.Add(scheduling.NewRequirement(GenKey, corev1.NodeSelectorOpIn, s.Gen))
		} else {
			reqs.Add(scheduling.NewRequirement(GenKey, corev1.NodeSelectorOpDoesNotExist))
		}
		out = append(out, &cloudprovider.InstanceType{
			Name: s.Name, Requirements: reqs, Offerings: ofs, Capacity: capacity,
			Overhead: &cloudprovider.InstanceTypeOverhead{KubeReserved: corev1.ResourceList{
				corev1.ResourceCPU:    *resource.NewMilliQuantity(s.OverheadCPUm(), resource.DecimalSI),
				corev1.ResourceMemory: resource.MustParse("10Mi"),
			}},
		})
	}
	return out
}

func NodeClass() *v1alpha1.TestNodeClass {
	nc := &v1alpha1.TestNodeClass{ObjectMeta: metav1.ObjectMeta{Name: "default", UID: "nodeclass-default"}}
	nc.StatusConditions().SetTrue(status.ConditionReady)
	return nc
}

func NodeClassRef() *v1.NodeClassReference {
	return &v1.NodeClassReference{Group: "karpenter.test.sh", Kind: "TestNodeClass", Name: "default"}
}

// NodePool builds a ready dynamic NodePool.
func NodePool(name string, mods ...func(*v1.NodePool)) *v1.NodePool {
	np := &v1.NodePool{ObjectMeta: metav1.ObjectMeta{Name: name, UID: types.UID("np-" + name), Generation: 1, CreationTimestamp: metaTime(Epoch.Add(-24 * time.Hour))}}
	np.Spec.Template.Spec.NodeClassRef = NodeClassRef()
	np.Spec.Template.Spec.Requirements = []v1.NodeSelectorRequirementWithMinValues{}
	np.Spec.Template.Spec.ExpireAfter = v1.MustParseNillableDuration("Never")
	np.Spec.Disruption.ConsolidateAfter = v1.MustParseNillableDuration("0s")
	np.Spec.Disruption.ConsolidationPolicy = v1.ConsolidationPolicyWhenEmptyOrUnderutilized
	np.Spec.Disruption.Budgets = []v1.Budget{{Nodes: "100%"}}
	for _, m := range mods {
		m(np)
	}
	if np.Status.Conditions == nil {
		np.StatusConditions().SetTrue(v1.ConditionTypeValidationSucceeded)
		np.StatusConditions().SetTrue(v1.ConditionTypeNodeClassReady)
		np.StatusConditions().SetUnknown(v1.ConditionTypeNodeRegistrationHealthy)
		for i := range np.Status.Conditions {
			np.Status.Conditions[i].LastTransitionTime = metaTime(Epoch.Add(-24 * time.Hour))
		}
	}
	return np
}

func RL(cpuMilli int64, memMi int64) corev1.ResourceList {
	rl := corev1.ResourceList{}
	if cpuMilli > 0 {
		rl[corev1.ResourceCPU] = *resource.NewMilliQuantity(cpuMilli, resource.DecimalSI)
	}
	if memMi > 0 {
		rl[corev1.ResourceMemory] = *resource.NewQuantity(memMi<<20, resource.BinarySI)
	}
	return rl
}

// Pod builds a pod; by default pending and marked Unschedulable by kube-scheduler (i.e. provisionable).
func Pod(name string, cpuMilli int64, mods ...func(*corev1.Pod)) *corev1.Pod {
	p := &corev1.Pod{
		ObjectMeta: metav1.ObjectMeta{Name: name, Namespace: "default", UID: types.UID("pod-" + name), CreationTimestamp: metaTime(Epoch.Add(-time.Hour))},
		Spec: corev1.PodSpec{Containers: []corev1.Container{{Name: "c", Image: "img",
			Resources: corev1.ResourceRequirements{Requests: RL(cpuMilli, 64)}}}},
		Status: corev1.PodStatus{Phase: corev1.PodPending, Conditions: []corev1.PodCondition{{Type: corev1.PodScheduled,
			Status: corev1.ConditionFalse, Reason: corev1.PodReasonUnschedulable}}},
	}
	for _, m := range mods {
		m(p)
	}
	return p
}

// Bound turns a pod into a running pod bound to node.
func Bound(node string) func(*corev1.Pod) {
	return func(p *corev1.Pod) {
		p.Spec.NodeName = node
		p.Status.Phase = corev1.PodRunning
		p.Status.Conditions = []corev1.PodCondition{{Type: corev1.PodScheduled, Status: corev1.ConditionTrue}, {Type: corev1.PodReady, Status: corev1.ConditionTrue}}
		st := metaTime(Epoch.Add(-time.Hour))
		p.Status.StartTime = &st
	}
}

func OwnedBy(kind, name string) func(*corev1.Pod) {
	return func(p *corev1.Pod) {
		t := true
		av := "apps/v1"
		if kind == "Node" {
			av = "v1"
		}
		p.OwnerReferences = append(p.OwnerReferences, metav1.OwnerReference{APIVersion: av, Kind: kind, Name: name, UID: types.UID(kind + "-" + name), Controller: &t, BlockOwnerDeletion: &t})
	}
}

type NodeSpec struct {
	Name     string
	Pool     string // "" => unmanaged node (no NodeClaim)
	Type     ITSpec
	Offer    OfSpec
	Stage    string // "claim-only" (launched, no node) | "unregistered" | "registered" | "initialized" (default)
	Deleting bool   // NodeClaim + Node have deletionTimestamp
	Labels   map[string]string
	Taints   []corev1.Taint
	Startup  []corev1.Taint
	NodeOnly []corev1.Taint // taints present on the Node object only (ephemeral taints kubelet / cloud controllers add)
	NotReady bool
	// ReadyUnknown: the Ready condition is Unknown (kubelet unreachable) instead of True/False
	ReadyUnknown bool
	Created  time.Time
	TGP      *time.Duration
	Annot    map[string]string
}

// LaunchLabels are the labels a node launched as (type, offering) carries from the provider.
func LaunchLabels(t ITSpec, o OfSpec) map[string]string {
	arch := t.Arch
	if arch == "" {
		arch = "amd64"
	}
	l := map[string]string{corev1.LabelInstanceTypeStable: t.Name, corev1.LabelArchStable: arch, corev1.LabelOSStable: "linux",
		corev1.LabelTopologyZone: o.Zone, v1.CapacityTypeLabelKey: o.CT}
	if t.Fam != "" {
		l[FamKey] = t.Fam
	}
	if t.Gen != "" {
		l[GenKey] = t.Gen
	}
	if o.RID != "" {
		l[cloudprovider.ReservationIDLabel] = o.RID
	}
	return l
}

func allocRL(t ITSpec, o OfSpec) corev1.ResourceList {
	rl := corev1.ResourceList{
		corev1.ResourceCPU:    *resource.NewMilliQuantity(t.AllocCPUm(o), resource.DecimalSI),
		corev1.ResourceMemory: *resource.NewQuantity(t.AllocMem(), resource.BinarySI),
		corev1.ResourcePods:   resource.MustParse(fmt.Sprint(t.Pods)),
	}
	for k, v := range t.Ext {
		rl[corev1.ResourceName(k)] = resource.MustParse(fmt.Sprint(v))
	}
	return rl
}

func capRL(t ITSpec, o OfSpec) corev1.ResourceList {
	c := t.CPU
	if o.OverCPU != 0 {
		c = o.OverCPU
	}
	rl := corev1.ResourceList{
		corev1.ResourceCPU:    resource.MustParse(fmt.Sprint(c)),
		corev1.ResourceMemory: resource.MustParse(fmt.Sprintf("%dGi", t.MemGi)),
		corev1.ResourcePods:   resource.MustParse(fmt.Sprint(t.Pods)),
	}
	for k, v := range t.Ext {
		rl[corev1.ResourceName(k)] = resource.MustParse(fmt.Sprint(v))
	}
	return rl
}

// BuildNode returns the NodeClaim (nil if unmanaged) and Node (nil for claim-only) for a NodeSpec and registers a
// matching instance with the provider.
func (w *World) BuildNode(s NodeSpec) (*v1.NodeClaim, *corev1.Node) {
	if s.Stage == "" {
		s.Stage = "initialized"
	}
	created := s.Created
	if created.IsZero() {
		created = Epoch.Add(-2 * time.Hour)
	}
	pid := "choice://pre-" + s.Name
	labels := LaunchLabels(s.Type, s.Offer)
	for k, v := range s.Labels {
		labels[k] = v
	}
	var nc *v1.NodeClaim
	if s.Pool != "" {
		labels[v1.NodePoolLabelKey] = s.Pool
		labels[v1.NodeClassLabelKey(NodeClassRef().GroupKind())] = "default"
		nc = &v1.NodeClaim{ObjectMeta: metav1.ObjectMeta{Name: "nc-" + s.Name, UID: types.UID("ncuid-" + s.Name), Labels: copyMap(labels),
			Annotations: copyMap(s.Annot), Finalizers: []string{v1.TerminationFinalizer}, CreationTimestamp: metaTime(created)}}
		nc.Spec.NodeClassRef = NodeClassRef()
		nc.Spec.Taints = s.Taints
		nc.Spec.StartupTaints = s.Startup
		nc.Spec.ExpireAfter = v1.MustParseNillableDuration("Never")
		if s.TGP != nil {
			nc.Spec.TerminationGracePeriod = &metav1.Duration{Duration: *s.TGP}
		}
		nc.Spec.Requirements = []v1.NodeSelectorRequirementWithMinValues{
			{Key: corev1.LabelInstanceTypeStable, Operator: corev1.NodeSelectorOpIn, Values: []string{s.Type.Name}},
			{Key: v1.NodePoolLabelKey, Operator: corev1.NodeSelectorOpIn, Values: []string{s.Pool}},
		}
		nc.Status.ProviderID = pid
		nc.Status.Capacity = capRL(s.Type, s.Offer)
		nc.Status.Allocatable = allocRL(s.Type, s.Offer)
		nc.StatusConditions().SetTrue(v1.ConditionTypeLaunched)
		switch s.Stage {
		case "claim-only", "unregistered":
			nc.StatusConditions().SetUnknown(v1.ConditionTypeRegistered)
			nc.StatusConditions().SetUnknown(v1.ConditionTypeInitialized)
		case "registered":
			nc.StatusConditions().SetTrue(v1.ConditionTypeRegistered)
			nc.StatusConditions().SetUnknown(v1.ConditionTypeInitialized)
		default:
			nc.StatusConditions().SetTrue(v1.ConditionTypeRegistered)
			nc.StatusConditions().SetTrue(v1.ConditionTypeInitialized)
		}
		for i := range nc.Status.Conditions {
			nc.Status.Conditions[i].LastTransitionTime = metaTime(created)
		}
		if s.Stage != "claim-only" {
			nc.Status.NodeName = s.Name
		}
		if s.Deleting {
			dt := metaTime(Epoch.Add(-time.Minute))
			nc.DeletionTimestamp = &dt
		}
	}
	var node *corev1.Node
	if s.Stage != "claim-only" {
		nl := copyMap(labels)
		nl[corev1.LabelHostname] = s.Name
		taints := append([]corev1.Taint{}, s.Taints...)
		taints = append(taints, s.NodeOnly...)
		if s.Pool != "" {
			switch s.Stage {
			case "unregistered":
				taints = append(taints, v1.UnregisteredNoExecuteTaint)
				taints = append(taints, s.Startup...)
				delete(nl, v1.NodePoolLabelKey) // kubelet-registered node does not yet carry karpenter labels
				nl[v1.NodePoolLabelKey] = s.Pool
			case "registered":
				nl[v1.NodeRegisteredLabelKey] = "true"
				taints = append(taints, s.Startup...)
			default:
				nl[v1.NodeRegisteredLabelKey] = "true"
				nl[v1.NodeInitializedLabelKey] = "true"
			}
		}
		node = &corev1.Node{ObjectMeta: metav1.ObjectMeta{Name: s.Name, UID: types.UID("nodeuid-" + s.Name), Labels: nl, Annotations: copyMap(s.Annot), CreationTimestamp: metaTime(created)},
			Spec:   corev1.NodeSpec{ProviderID: pid, Taints: taints},
			Status: corev1.NodeStatus{Capacity: capRL(s.Type, s.Offer), Allocatable: allocRL(s.Type, s.Offer)}}
		if s.Pool != "" {
			node.Finalizers = []string{v1.TerminationFinalizer}
		}
		ready := corev1.ConditionTrue
		if s.NotReady {
			ready = corev1.ConditionFalse
		}
		if s.ReadyUnknown {
			ready = corev1.ConditionUnknown
		}
		node.Status.Conditions = []corev1.NodeCondition{{Type: corev1.NodeReady, Status: ready, LastTransitionTime: metaTime(created)}}
		if s.Deleting && s.Pool != "" {
			dt := metaTime(Epoch.Add(-time.Minute))
			node.DeletionTimestamp = &dt
			node.Spec.Taints = append(node.Spec.Taints, v1.DisruptedNoScheduleTaint)
		}
	}
	// provider instance
	inst := &Instance{ProviderID: pid}
	if nc != nil {
		inst.NodeClaim = nc.DeepCopy()
	} else {
		inst.NodeClaim = &v1.NodeClaim{ObjectMeta: metav1.ObjectMeta{Name: "unmanaged-" + s.Name}, Status: v1.NodeClaimStatus{ProviderID: pid}}
	}
	w.CP.Instances = append(w.CP.Instances, inst)
	if nc != nil {
		w.Add(nc)
	}
	if node != nil {
		w.Add(node)
	}
	return nc, node
}

func copyMap(m map[string]string) map[string]string {
	if m == nil {
		return nil
	}
	out := make(map[string]string, len(m))
	for k, v := range m {
		out[k] = v
	}
	return out
}

func DaemonSet(name string, cpuMilli int64, mods ...func(*appsv1.DaemonSet)) *appsv1.DaemonSet {
	ds := &appsv1.DaemonSet{ObjectMeta: metav1.ObjectMeta{Name: name, Namespace: "default", UID: types.UID("DaemonSet-" + name)},
		Spec: appsv1.DaemonSetSpec{Selector: &metav1.LabelSelector{MatchLabels: map[string]string{"ds": name}},
			Template: corev1.PodTemplateSpec{ObjectMeta: metav1.ObjectMeta{Labels: map[string]string{"ds": name}},
				Spec: corev1.PodSpec{Containers: []corev1.Container{{Name: "c", Image: "img", Resources: corev1.ResourceRequirements{Requests: RL(cpuMilli, 32)}}}}}}}
	for _, m := range mods {
		m(ds)
	}
	return ds
}
