package world

import (
	"context"
	"fmt"
	"reflect"
	goruntime "runtime"
	"strings"
	"sync"
	"sync/atomic"
	"time"

	corev1 "k8s.io/api/core/v1"
	policyv1 "k8s.io/api/policy/v1"
	apierrors "k8s.io/apimachinery/pkg/api/errors"
	metav1 "k8s.io/apimachinery/pkg/apis/meta/v1"
	"k8s.io/apimachinery/pkg/labels"
	"k8s.io/apimachinery/pkg/runtime"
	"k8s.io/apimachinery/pkg/runtime/schema"
	"k8s.io/client-go/kubernetes/scheme"
	"sigs.k8s.io/controller-runtime/pkg/client"
	"sigs.k8s.io/controller-runtime/pkg/client/apiutil"
)

func metaTime(t time.Time) metav1.Time { return metav1.Time{Time: t} }

// IClient is the client handed to code under test. Every call is (1) announced to Hook before it runs — the hook is the
// choice point for thread scheduling and fault injection and may return an error to inject; (2) performed on the fake
// client with the API-server behaviour the fake lacks; (3) appended to Log.
type IClient struct {
	client.WithWatch
	w *World

	Log   []Call
	Hook  func(c *Call) error // nil => no choice points
	After func(c *Call)       // observation hook called after the call completed (oracles that need the instant)
	Quiet int                 // >0: calls are neither logged nor announced (harness-internal deliveries)
	// Sched, when set, is called before every call WITHOUT the client lock held: the cooperative scheduler's yield point
	Sched func(label string)
	// SchedAfter, when set, is called right after every call returned (same contract as Sched)
	SchedAfter func(label string)
	// GracefulPods makes pod deletion graceful (deletionTimestamp = now + grace; the pod stays until the environment removes it)
	GracefulPods bool
	seq          int
	mu           sync.Mutex // calls may come from fan-out goroutines (client-go ParallelizeUntil)
	// SerializeSched: Sched is called under a lock of its own (re-entrant for the goroutine that holds it)
	SerializeSched bool
	schedMu        sync.Mutex
	schedOwner     atomic.Int64
}

// goroutineID parses the id out of the first line of the goroutine's stack ("goroutine 123 [running]:").
func goroutineID() int64 {
	var buf [64]byte
	n := goruntime.Stack(buf[:], false)
	var id int64
	for _, b := range buf[len("goroutine "):n] {
		if b < '0' || b > '9' {
			break
		}
		id = id*10 + int64(b-'0')
	}
	return id
}

func kindOf(o any) string {
	t := reflect.TypeOf(o)
	for t.Kind() == reflect.Ptr {
		t = t.Elem()
	}
	return strings.TrimSuffix(t.Name(), "List")
}

func (c *IClient) begin(verb string, obj any, name string, note string) (*Call, error) {
	return c.beginCall(&Call{Verb: verb, Kind: kindOf(obj), Name: name, Note: note})
}

func (c *IClient) beginSel(verb string, obj any, sel string) (*Call, error) {
	return c.beginCall(&Call{Verb: verb, Kind: kindOf(obj), Sel: sel})
}

func (c *IClient) beginCall(call *Call) (*Call, error) {
	verb, name := call.Verb, call.Name
	if c.SerializeSched && c.Sched != nil {
		// the code under test fans calls out over worker goroutines: announce them one at a time, and make a worker that
		// arrives while another one's announcement runs an environment event (Quiet > 0 meanwhile) wait for its end
		if gid := goroutineID(); c.schedOwner.Load() != gid {
			c.schedMu.Lock()
			c.schedOwner.Store(gid)
			if c.Quiet == 0 {
				c.Sched(verb + " " + call.Kind + "/" + name)
			}
			c.schedOwner.Store(0)
			c.schedMu.Unlock()
		}
		if c.Quiet > 0 {
			return call, nil
		}
	} else {
		if c.Quiet > 0 {
			return call, nil
		}
		if c.Sched != nil {
			c.Sched(verb + " " + call.Kind + "/" + name)
		}
	}
	c.mu.Lock()
	defer c.mu.Unlock()
	c.seq++
	call.Seq = c.seq
	if c.Hook != nil {
		if err := c.Hook(call); err != nil {
			call.Err = errString(err)
			c.Log = append(c.Log, *call)
			return call, err
		}
	}
	return call, nil
}

func (c *IClient) end(call *Call, err error) error {
	if c.Quiet > 0 {
		return err
	}
	c.mu.Lock()
	if err != nil {
		call.ambiguous = nil // the server rejected the write: a plain failure
	} else if call.ambiguous != nil {
		err = call.ambiguous // the write was applied; the caller is told it failed
	}
	if err != nil {
		call.Err = errString(err)
	}
	c.Log = append(c.Log, *call)
	if c.After != nil {
		c.After(call)
	}
	c.mu.Unlock()
	if c.SchedAfter != nil {
		// the instant right after the call returned: before the caller reads any in-memory state (cluster cache) again
		c.SchedAfter(call.Verb + " " + call.Kind + "/" + call.Name)
	}
	return err
}

func errString(err error) string {
	switch {
	case apierrors.IsNotFound(err):
		return "NotFound"
	case apierrors.IsConflict(err):
		return "Conflict"
	case apierrors.IsTooManyRequests(err):
		return "TooManyRequests"
	case apierrors.IsInternalError(err):
		return "InternalError"
	}
	s := err.Error()
	if len(s) > 80 {
		s = s[:80]
	}
	return s
}

func (c *IClient) Get(ctx context.Context, key client.ObjectKey, obj client.Object, opts ...client.GetOption) error {
	call, err := c.begin("get", obj, key.Name, "")
	if err != nil {
		return err
	}
	// real clients ignore the namespace of a key for cluster-scoped kinds; the fake does not
	if key.Namespace != "" {
		if namespaced, nerr := c.WithWatch.IsObjectNamespaced(obj); nerr == nil && !namespaced {
			key.Namespace = ""
		}
	}
	return c.end(call, c.WithWatch.Get(ctx, key, obj, opts...))
}

func (c *IClient) List(ctx context.Context, list client.ObjectList, opts ...client.ListOption) error {
	lo := &client.ListOptions{}
	lo.ApplyOptions(opts)
	var sel []string
	if lo.Namespace != "" {
		sel = append(sel, "ns="+lo.Namespace)
	}
	if lo.FieldSelector != nil && !lo.FieldSelector.Empty() {
		sel = append(sel, lo.FieldSelector.String())
	}
	if lo.LabelSelector != nil && !lo.LabelSelector.Empty() {
		sel = append(sel, lo.LabelSelector.String())
	}
	call, err := c.beginSel("list", list, strings.Join(sel, ","))
	if err != nil {
		return err
	}
	return c.end(call, c.WithWatch.List(ctx, list, opts...))
}

func (c *IClient) Create(ctx context.Context, obj client.Object, opts ...client.CreateOption) error {
	call, err := c.begin("create", obj, obj.GetName()+obj.GetGenerateName(), "")
	if err != nil {
		return err
	}
	c.mu.Lock() // creates may come from fan-out goroutines: the name / UID sequence is shared
	if obj.GetName() == "" && obj.GetGenerateName() != "" {
		c.w.uidSeq++
		obj.SetName(fmt.Sprintf("%s%03d", obj.GetGenerateName(), c.w.uidSeq))
	}
	if obj.GetUID() == "" {
		obj.SetUID(c.w.NextUID(strings.ToLower(kindOf(obj))))
	}
	c.mu.Unlock()
	if ct := obj.GetCreationTimestamp(); ct.IsZero() {
		obj.SetCreationTimestamp(metaTime(c.w.Clock.Now()))
	}
	err = c.WithWatch.Create(ctx, obj, opts...)
	call.Name = obj.GetName()
	call.Object = obj.DeepCopyObject()
	return c.end(call, err)
}

func (c *IClient) Update(ctx context.Context, obj client.Object, opts ...client.UpdateOption) error {
	call, err := c.begin("update", obj, obj.GetName(), "")
	if err != nil {
		return err
	}
	err = c.WithWatch.Update(ctx, obj, opts...)
	call.Object = obj.DeepCopyObject()
	return c.end(call, err)
}

func (c *IClient) Patch(ctx context.Context, obj client.Object, patch client.Patch, opts ...client.PatchOption) error {
	note := ""
	if data, err := patch.Data(obj); err == nil {
		note = patchNote(data)
	}
	call, err := c.begin("patch", obj, obj.GetName(), note)
	if err != nil {
		return err
	}
	err = c.WithWatch.Patch(ctx, obj, patch, opts...)
	call.Object = obj.DeepCopyObject()
	return c.end(call, err)
}

func patchNote(data []byte) string {
	s := string(data)
	var notes []string
	if strings.Contains(s, `"finalizers"`) {
		notes = append(notes, "finalizers")
	}
	if strings.Contains(s, `"taints"`) {
		notes = append(notes, "taints")
	}
	if strings.Contains(s, `"conditions"`) {
		notes = append(notes, "conditions")
	}
	if strings.Contains(s, `"labels"`) {
		notes = append(notes, "labels")
	}
	if strings.Contains(s, `"resourceVersion"`) {
		notes = append(notes, "optlock")
	}
	return strings.Join(notes, ",")
}

func (c *IClient) Delete(ctx context.Context, obj client.Object, opts ...client.DeleteOption) error {
	do := client.DeleteOptions{}
	do.ApplyOptions(opts)
	note := ""
	if do.GracePeriodSeconds != nil {
		note = fmt.Sprintf("grace=%d", *do.GracePeriodSeconds)
	}
	call, err := c.begin("delete", obj, obj.GetName(), note)
	if err != nil {
		return err
	}
	call.Object = obj.DeepCopyObject()
	return c.end(call, c.delete(ctx, obj, do, opts...))
}

func (c *IClient) delete(ctx context.Context, obj client.Object, do client.DeleteOptions, opts ...client.DeleteOption) error {
	// UID precondition (the fake only implements the resourceVersion one)
	cur := obj.DeepCopyObject().(client.Object)
	if err := c.WithWatch.Get(ctx, client.ObjectKeyFromObject(obj), cur); err != nil {
		return err
	}
	if do.Preconditions != nil && do.Preconditions.UID != nil && *do.Preconditions.UID != cur.GetUID() {
		return apierrors.NewConflict(schema.GroupResource{Resource: strings.ToLower(kindOf(obj))}, obj.GetName(), fmt.Errorf("uid precondition failed"))
	}
	if pod, ok := cur.(*corev1.Pod); ok && c.GracefulPods {
		grace := int64(30)
		if pod.Spec.TerminationGracePeriodSeconds != nil {
			grace = *pod.Spec.TerminationGracePeriodSeconds
		}
		if do.GracePeriodSeconds != nil {
			grace = *do.GracePeriodSeconds
		}
		if grace == 0 && len(pod.Finalizers) == 0 {
			return c.WithWatch.Delete(ctx, obj, opts...)
		}
		dt := metaTime(c.w.Clock.Now().Add(time.Duration(grace) * time.Second))
		if pod.DeletionTimestamp != nil && !dt.Before(pod.DeletionTimestamp) {
			return nil // already terminating with an earlier or equal deadline
		}
		pod.DeletionTimestamp = &dt
		pod.DeletionGracePeriodSeconds = &grace
		c.w.EnvUpdate(pod)
		return nil
	}
	wasDeleting := !cur.GetDeletionTimestamp().IsZero()
	if err := c.WithWatch.Delete(ctx, obj, opts...); err != nil {
		return err
	}
	if !wasDeleting {
		// the fake stamps metav1.Now(); replace by the scenario clock
		after := obj.DeepCopyObject().(client.Object)
		if err := c.WithWatch.Get(ctx, client.ObjectKeyFromObject(obj), after); err == nil && !after.GetDeletionTimestamp().IsZero() {
			dt := metaTime(c.w.Clock.Now())
			after.SetDeletionTimestamp(&dt)
			c.w.EnvUpdate(after)
		}
	}
	return nil
}

func (c *IClient) DeleteAllOf(ctx context.Context, obj client.Object, opts ...client.DeleteAllOfOption) error {
	call, err := c.begin("deleteallof", obj, "", "")
	if err != nil {
		return err
	}
	return c.end(call, c.WithWatch.DeleteAllOf(ctx, obj, opts...))
}

func (c *IClient) Status() client.SubResourceWriter { return c.SubResource("status") }

func (c *IClient) SubResource(sub string) client.SubResourceClient {
	return &iSub{c: c, sub: sub, inner: c.WithWatch.SubResource(sub)}
}

type iSub struct {
	c     *IClient
	sub   string
	inner client.SubResourceClient
}

func (s *iSub) Get(ctx context.Context, obj client.Object, sr client.Object, opts ...client.SubResourceGetOption) error {
	return s.inner.Get(ctx, obj, sr, opts...)
}

func (s *iSub) Create(ctx context.Context, obj client.Object, sr client.Object, opts ...client.SubResourceCreateOption) error {
	if s.sub != "eviction" {
		return s.inner.Create(ctx, obj, sr, opts...)
	}
	call, err := s.c.begin("evict", obj, obj.GetName(), "")
	if err != nil {
		return err
	}
	call.Object = obj.DeepCopyObject()
	uid, err := s.c.evict(ctx, obj.(*corev1.Pod), sr)
	if err == nil {
		call.Note = "evicted-uid=" + uid // the pod the API server actually removed (an eviction is resolved by NAME)
	}
	return s.c.end(call, err)
}

// evict implements the eviction sub-resource: UID precondition, PDB admission (429 when a matching PDB allows no
// disruptions, 500 when more than one PDB matches), then a (graceful) delete.
func (c *IClient) evict(ctx context.Context, pod *corev1.Pod, sr client.Object) (string, error) {
	cur := &corev1.Pod{}
	if err := c.WithWatch.Get(ctx, client.ObjectKeyFromObject(pod), cur); err != nil {
		return "", err
	}
	return string(cur.UID), c.evictCurrent(ctx, pod, cur, sr)
}

func (c *IClient) evictCurrent(ctx context.Context, pod, cur *corev1.Pod, sr client.Object) error {
	var do client.DeleteOptions
	if e, ok := sr.(*policyv1.Eviction); ok && e.DeleteOptions != nil {
		if e.DeleteOptions.Preconditions != nil && e.DeleteOptions.Preconditions.UID != nil && *e.DeleteOptions.Preconditions.UID != cur.UID {
			return apierrors.NewConflict(schema.GroupResource{Resource: "pods"}, pod.Name, fmt.Errorf("uid precondition failed"))
		}
		do.GracePeriodSeconds = e.DeleteOptions.GracePeriodSeconds
	}
	pdbs := &policyv1.PodDisruptionBudgetList{}
	if err := c.WithWatch.List(ctx, pdbs, client.InNamespace(cur.Namespace)); err != nil {
		return err
	}
	var matching []*policyv1.PodDisruptionBudget
	for i := range pdbs.Items {
		sel, err := metav1.LabelSelectorAsSelector(pdbs.Items[i].Spec.Selector)
		if err != nil || sel.Empty() && pdbs.Items[i].Spec.Selector == nil {
			continue
		}
		if sel.Matches(labels.Set(cur.Labels)) {
			matching = append(matching, &pdbs.Items[i])
		}
	}
	terminalOrPending := cur.Status.Phase == corev1.PodSucceeded || cur.Status.Phase == corev1.PodFailed || cur.Status.Phase == corev1.PodPending
	if !terminalOrPending && cur.DeletionTimestamp == nil {
		if len(matching) > 1 {
			return apierrors.NewInternalError(fmt.Errorf("This pod has more than one PodDisruptionBudget, which the eviction subresource does not support."))
		}
		if len(matching) == 1 && matching[0].Status.DisruptionsAllowed <= 0 {
			return apierrors.NewTooManyRequests("Cannot evict pod as it would violate the pod's disruption budget.", 0)
		}
	}
	return c.delete(ctx, cur, do)
}

func (s *iSub) Update(ctx context.Context, obj client.Object, opts ...client.SubResourceUpdateOption) error {
	call, err := s.c.begin(s.sub+"-update", obj, obj.GetName(), "")
	if err != nil {
		return err
	}
	err = s.inner.Update(ctx, obj, opts...)
	call.Object = obj.DeepCopyObject()
	return s.c.end(call, err)
}

func (s *iSub) Patch(ctx context.Context, obj client.Object, patch client.Patch, opts ...client.SubResourcePatchOption) error {
	note := ""
	if data, err := patch.Data(obj); err == nil {
		note = patchNote(data)
	}
	call, err := s.c.begin(s.sub+"-patch", obj, obj.GetName(), note)
	if err != nil {
		return err
	}
	err = s.inner.Patch(ctx, obj, patch, opts...)
	call.Object = obj.DeepCopyObject()
	return s.c.end(call, err)
}

func (s *iSub) Apply(ctx context.Context, obj runtime.ApplyConfiguration, opts ...client.SubResourceApplyOption) error {
	return fmt.Errorf("apply not supported in the closed world")
}

var _ = apiutil.GVKForObject
var _ = scheme.Scheme
