package world

import (
	"k8s.io/apimachinery/pkg/api/resource"
	"fmt"

	corev1 "k8s.io/api/core/v1"
	metav1 "k8s.io/apimachinery/pkg/apis/meta/v1"
	"k8s.io/apimachinery/pkg/types"
	"sigs.k8s.io/controller-runtime/pkg/client"

	v1 "sigs.k8s.io/karpenter/pkg/apis/v1"
)

// Environment events played by the harness as kubelet / cloud controller manager. They write through the raw tracker.

type RegisterOpts struct {
	NoUnregisteredTaint bool // the provider failed to add the race-protection taint
	NotReadyTaint       bool // node.kubernetes.io/not-ready:NoSchedule present until Ready
	ZeroExt             bool // extended resources not reported at first (key absent)
	ExplicitZeroExt     bool // extended resources reported with an explicit 0 at first (device plugin registered, no healthy device yet)
	OmitHostname        bool
}

// KubeletRegister makes the Node of a launched NodeClaim appear (not Ready, startup taints of the NodeClaim present).
func (w *World) KubeletRegister(nc *v1.NodeClaim, o RegisterOpts) *corev1.Node {
	inst := w.CP.Instance(nc.Status.ProviderID)
	if inst == nil {
		panic("KubeletRegister: no instance for " + nc.Name)
	}
	name := "node-" + nc.Name
	labels := map[string]string{}
	for k, v := range inst.NodeClaim.Labels {
		labels[k] = v
	}
	delete(labels, v1.NodePoolLabelKey) // karpenter-owned labels are synced by registration, kubelet brings provider labels only
	if !o.OmitHostname {
		labels[corev1.LabelHostname] = name
	}
	var taints []corev1.Taint
	if !o.NoUnregisteredTaint {
		taints = append(taints, v1.UnregisteredNoExecuteTaint)
	}
	taints = append(taints, nc.Spec.StartupTaints...)
	if o.NotReadyTaint {
		taints = append(taints, corev1.Taint{Key: "node.kubernetes.io/not-ready", Effect: corev1.TaintEffectNoSchedule})
	}
	alloc := inst.NodeClaim.Status.Allocatable.DeepCopy()
	capac := inst.NodeClaim.Status.Capacity.DeepCopy()
	if o.ZeroExt {
		for k := range alloc {
			if isExt(k) {
				delete(alloc, k)
				delete(capac, k)
			}
		}
	}
	if o.ExplicitZeroExt {
		for k := range alloc {
			if isExt(k) {
				alloc[k] = resource.MustParse("0")
				capac[k] = resource.MustParse("0")
			}
		}
	}
	node := &corev1.Node{ObjectMeta: metav1.ObjectMeta{Name: name, UID: types.UID("nodeuid-" + name), Labels: labels, CreationTimestamp: metaTime(w.Clock.Now())},
		Spec: corev1.NodeSpec{ProviderID: nc.Status.ProviderID, Taints: taints},
		Status: corev1.NodeStatus{Capacity: capac, Allocatable: alloc,
			Conditions: []corev1.NodeCondition{{Type: corev1.NodeReady, Status: corev1.ConditionFalse, LastTransitionTime: metaTime(w.Clock.Now())}}}}
	w.Add(node)
	return node
}

func isExt(k corev1.ResourceName) bool {
	for _, c := range string(k) {
		if c == '/' {
			return true
		}
	}
	return false
}

func (w *World) GetNode(name string) *corev1.Node {
	n := &corev1.Node{}
	if err := w.Raw.Get(w.Ctx, client.ObjectKey{Name: name}, n); err != nil {
		return nil
	}
	return n
}

func (w *World) GetNodeClaim(name string) *v1.NodeClaim {
	n := &v1.NodeClaim{}
	if err := w.Raw.Get(w.Ctx, client.ObjectKey{Name: name}, n); err != nil {
		return nil
	}
	return n
}

// KubeletReady flips Ready to True and drops the not-ready taint.
func (w *World) KubeletReady(name string) {
	n := w.GetNode(name)
	if n == nil {
		return
	}
	for i := range n.Status.Conditions {
		if n.Status.Conditions[i].Type == corev1.NodeReady {
			n.Status.Conditions[i].Status = corev1.ConditionTrue
			n.Status.Conditions[i].LastTransitionTime = metaTime(w.Clock.Now())
		}
	}
	w.RemoveTaintsLocked(n, func(t corev1.Taint) bool { return t.Key == "node.kubernetes.io/not-ready" })
}

func (w *World) RemoveTaintsLocked(n *corev1.Node, drop func(corev1.Taint) bool) {
	var keep []corev1.Taint
	for _, t := range n.Spec.Taints {
		if !drop(t) {
			keep = append(keep, t)
		}
	}
	n.Spec.Taints = keep
	w.EnvUpdate(n)
}

// RemoveStartupTaints plays the daemon that clears the NodeClaim's startup taints.
func (w *World) RemoveStartupTaints(name string, nc *v1.NodeClaim) {
	n := w.GetNode(name)
	if n == nil {
		return
	}
	w.RemoveTaintsLocked(n, func(t corev1.Taint) bool {
		for _, s := range nc.Spec.StartupTaints {
			if s.Key == t.Key && s.Effect == t.Effect {
				return true
			}
		}
		return false
	})
}

// ReportExtended makes the device plugin report the instance's extended resources.
func (w *World) ReportExtended(name string, nc *v1.NodeClaim) {
	n := w.GetNode(name)
	inst := w.CP.Instance(nc.Status.ProviderID)
	if n == nil || inst == nil {
		return
	}
	for k, v := range inst.NodeClaim.Status.Allocatable {
		if isExt(k) {
			n.Status.Allocatable[k] = v.DeepCopy()
			n.Status.Capacity[k] = v.DeepCopy()
		}
	}
	w.EnvUpdate(n)
}

// InstanceGone makes a terminating (or any) instance disappear from the provider.
func (w *World) InstanceGone(pid string) {
	if i := w.CP.Instance(pid); i != nil {
		i.Gone = true
	}
}

func (w *World) String() string { return fmt.Sprintf("world@%s", w.Clock.Now().Sub(Epoch)) }
