package world

import (
	corev1 "k8s.io/api/core/v1"

	v1 "sigs.k8s.io/karpenter/pkg/apis/v1"
	"sigs.k8s.io/karpenter/pkg/cloudprovider"
	"sigs.k8s.io/karpenter/pkg/scheduling"

	"verif/oracle"
)

// Catalog requirements are data written by the harness: each is `In [values]` (the set of label values a node of that
// type/offering can carry) or DoesNotExist. They are read through Values()/Operator() only.

// optionValues returns (values, defined) for a catalog requirement set on key.
func optionValues(reqs scheduling.Requirements, key string) ([]string, bool) {
	r, ok := reqs[key]
	if !ok {
		return nil, false
	}
	if r.Operator() == corev1.NodeSelectorOpIn {
		return r.Values(), true
	}
	return nil, true // DoesNotExist: label never present
}

// TypeAdmittedBy: for every key the request constrains and the type defines, some value the type offers satisfies the
// conjunction of the request's requirements on that key (zone/capacity-type/reservation are judged per offering).
func TypeAdmittedBy(it *cloudprovider.InstanceType, reqs []v1.NodeSelectorRequirementWithMinValues) bool {
	for _, key := range oracle.Keys(reqs) {
		if key == corev1.LabelTopologyZone || key == v1.CapacityTypeLabelKey || key == cloudprovider.ReservationIDLabel {
			continue
		}
		vals, defined := optionValues(it.Requirements, key)
		if !defined {
			continue // label supplied by the NodeClaim itself (custom) or unconstrained (well-known)
		}
		ok := false
		if len(vals) == 0 {
			ok = oracle.SatAll(reqs, key, false, "")
		}
		for _, v := range vals {
			if oracle.SatAll(reqs, key, true, v) {
				ok = true
				break
			}
		}
		if !ok {
			return false
		}
	}
	return true
}

func OfferingAdmittedBy(of *cloudprovider.Offering, reqs []v1.NodeSelectorRequirementWithMinValues) bool {
	for _, key := range []string{corev1.LabelTopologyZone, v1.CapacityTypeLabelKey, cloudprovider.ReservationIDLabel} {
		vals, defined := optionValues(of.Requirements, key)
		if !defined || len(vals) == 0 {
			if !oracle.SatAll(reqs, key, false, "") && key != cloudprovider.ReservationIDLabel {
				return false
			}
			if key == cloudprovider.ReservationIDLabel && !oracle.SatAll(reqs, key, false, "") {
				return false
			}
			continue
		}
		if !oracle.SatAll(reqs, key, true, vals[0]) {
			return false
		}
	}
	return true
}

func OfferingZone(of *cloudprovider.Offering) string {
	v, _ := optionValues(of.Requirements, corev1.LabelTopologyZone)
	if len(v) > 0 {
		return v[0]
	}
	return ""
}
func OfferingCT(of *cloudprovider.Offering) string {
	v, _ := optionValues(of.Requirements, v1.CapacityTypeLabelKey)
	if len(v) > 0 {
		return v[0]
	}
	return ""
}
func OfferingRID(of *cloudprovider.Offering) string {
	v, _ := optionValues(of.Requirements, cloudprovider.ReservationIDLabel)
	if len(v) > 0 {
		return v[0]
	}
	return ""
}
