// Package ev collects what a check covered (counters, samples, violations), applies the committed known-findings
// list, writes /verif/evidence/<id>.json and replay files, and decides the exit code.
package ev

import (
	"crypto/sha256"
	"encoding/hex"
	"encoding/json"
	"fmt"
	"hash/fnv"
	"os"
	"path/filepath"
	"sort"
	"strings"
	"sync"
	"time"
)

var Root = func() string {
	if r := os.Getenv("VERIF_ROOT"); r != "" {
		return r
	}
	return "/verif"
}()

// Violation is one observed breach of a property. Sig is a stable, specific signature (what fails, on which input
// class / call site); it is what known_findings.json is matched against. Detail is the replayable artefact.
type Violation struct {
	Sig    string `json:"sig"`
	Msg    string `json:"msg"`
	Detail any    `json:"detail,omitempty"`
	// Case locates the input case in the check's enumerations: the Part-th enumeration the check runs (in program order)
	// and the index inside it. `vc replay` re-runs exactly that case, sequentially, in one process.
	Case *CaseRef `json:"case,omitempty"`
}

type CaseRef struct {
	Part  int   `json:"part"`
	Index int64 `json:"index"`
}

type Finding struct {
	Property string `json:"property"`
	Status   string `json:"status"` // "known" | "fixed"
	Sig      string `json:"sig"`    // exact signature, or prefix when it ends in '*'
	Commit   string `json:"commit,omitempty"`
	What     string `json:"what"`
}

// Rec is the recorder shared by all workers of one check run.
type Rec struct {
	ID    string
	Tier  string
	Seed  int64
	Level string
	Rule  string

	mu          sync.Mutex
	evals       int64
	nontriv     map[uint64]struct{}
	outcomes    map[string]int64
	samples     []any
	maxSamples  int
	viol        map[string]*Violation // by sig: first (smallest) one kept
	violCount   map[string]int64
	Extra       map[string]any
	Assumptions []string
	Exhaustive  bool
	start       time.Time
	Deadline    time.Time
	States      int64
	Transitions int64
	Traces      int64

	StatesAreOutcomes bool
	findings []Finding
	// process sharding: a child process runs shard Shard of Shards and dumps a Partial instead of finishing
	Shard, Shards int
}

// Partial is what a shard process hands back to the parent.
type Partial struct {
	Evals       int64
	Nontriv     []uint64
	Outcomes    map[string]int64
	Samples     []any
	Viol        map[string]*Violation
	ViolCount   map[string]int64
	States      int64
	Transitions int64
	Traces      int64
	Exhaustive  bool
	Extra       map[string]any
	Rule        string
	Assumptions []string
}

func (r *Rec) DumpPartial(path string) error {
	r.mu.Lock()
	defer r.mu.Unlock()
	p := Partial{Evals: r.evals, Outcomes: r.outcomes, Samples: r.samples, Viol: r.viol, ViolCount: r.violCount, States: r.States,
		Transitions: r.Transitions, Traces: r.Traces, Exhaustive: r.Exhaustive, Extra: r.Extra, Rule: r.Rule, Assumptions: r.Assumptions}
	for h := range r.nontriv {
		p.Nontriv = append(p.Nontriv, h)
	}
	b, err := json.Marshal(p)
	if err != nil {
		return err
	}
	return os.WriteFile(path, b, 0o644)
}

func (r *Rec) MergePartial(path string) error {
	b, err := os.ReadFile(path)
	if err != nil {
		return err
	}
	var p Partial
	if err := json.Unmarshal(b, &p); err != nil {
		return err
	}
	r.mu.Lock()
	defer r.mu.Unlock()
	r.evals += p.Evals
	for _, h := range p.Nontriv {
		r.nontriv[h] = struct{}{}
	}
	for k, v := range p.Outcomes {
		r.outcomes[k] += v
	}
	for _, s := range p.Samples {
		if len(r.samples) < r.maxSamples {
			r.samples = append(r.samples, s)
		}
	}
	for sig, v := range p.Viol {
		r.violCount[sig] += p.ViolCount[sig]
		if old, ok := r.viol[sig]; !ok || len(v.Msg) < len(old.Msg) {
			r.viol[sig] = v
		}
	}
	r.States += p.States
	r.Transitions += p.Transitions
	r.Traces += p.Traces
	if !p.Exhaustive {
		r.Exhaustive = false
	}
	for k, v := range p.Extra {
		// numeric extras that are per-shard counters are summed when they end in "_sum"; others: first writer wins
		if f, ok := v.(float64); ok && strings.HasSuffix(k, "_sum") {
			if old, ok := r.Extra[k].(float64); ok {
				r.Extra[k] = old + f
			} else {
				r.Extra[k] = f
			}
			continue
		}
		if _, ok := r.Extra[k]; !ok {
			r.Extra[k] = v
		}
	}
	if r.Rule == "" {
		r.Rule = p.Rule
	}
	if len(r.Assumptions) == 0 {
		r.Assumptions = p.Assumptions
	}
	return nil
}

func New(id, tier, level string) *Rec {
	seed := int64(0)
	fmt.Sscan(os.Getenv("VERIF_SEED"), &seed)
	r := &Rec{ID: id, Tier: tier, Seed: seed, Level: level, nontriv: map[uint64]struct{}{}, outcomes: map[string]int64{},
		viol: map[string]*Violation{}, violCount: map[string]int64{}, Extra: map[string]any{}, maxSamples: 6,
		Exhaustive: true, start: time.Now()}
	d := 4 * time.Minute
	if tier == "thorough" {
		d = 25 * time.Minute
	}
	if s := os.Getenv("VERIF_DEADLINE_S"); s != "" {
		var n int
		fmt.Sscan(s, &n)
		d = time.Duration(n) * time.Second
	}
	r.Deadline = r.start.Add(d)
	r.Shards = 1
	if v := os.Getenv("VERIF_SHARD"); v != "" {
		fmt.Sscan(v, &r.Shard)
		fmt.Sscan(os.Getenv("VERIF_NSHARDS"), &r.Shards)
		if t := os.Getenv("VERIF_START_UNIX"); t != "" {
			var u int64
			fmt.Sscan(t, &u)
			r.start = time.Unix(u, 0)
			r.Deadline = r.start.Add(d)
		}
	}
	return r
}

// Expired: the internal deadline passed (or, for mutant runs only, VERIF_STOP_ON_VIOLATION is set and one was found).
func (r *Rec) Expired() bool {
	if stopOnViolation && r.numFresh() > 0 {
		return true
	}
	return time.Now().After(r.Deadline)
}

var stopOnViolation = os.Getenv("VERIF_STOP_ON_VIOLATION") != ""

func H(s string) uint64 { h := fnv.New64a(); h.Write([]byte(s)); return h.Sum64() }

// Local is a per-worker buffer merged under the lock at the end; keeps the hot path lock-free.
type Local struct {
	r        *Rec
	Evals    int64
	nontriv  map[uint64]struct{}
	outcomes map[string]int64
	States, Transitions, Traces int64
	// Mute: counters are not advanced (an execution that every shard has to repeat — the root of an exploration that
	// is split over the shards — is counted by shard 0 only). Violations are always recorded.
	Mute bool
	// Case is set by package enum around every case it runs.
	Case *CaseRef
}

func (r *Rec) Local() *Local {
	return &Local{r: r, nontriv: map[uint64]struct{}{}, outcomes: map[string]int64{}}
}
func (l *Local) Eval() {
	if !l.Mute {
		l.Evals++
	}
}
func (l *Local) Nontrivial(key string) { l.nontriv[H(key)] = struct{}{} }
func (l *Local) NontrivialH(h uint64)  { l.nontriv[h] = struct{}{} }
func (l *Local) Outcome(o string) {
	if !l.Mute {
		l.outcomes[o]++
	}
}
func (l *Local) Trace() {
	if !l.Mute {
		l.Traces++
	}
}
func (l *Local) Sample(s any) { l.r.Sample(s) }
func (l *Local) Violation(sig, msg string, detail any) { l.r.violation(sig, msg, detail, l.Case) }
func (l *Local) Merge() {
	l.r.mu.Lock()
	defer l.r.mu.Unlock()
	l.r.evals += l.Evals
	for k := range l.nontriv {
		l.r.nontriv[k] = struct{}{}
	}
	for k, v := range l.outcomes {
		l.r.outcomes[k] += v
	}
	l.r.States += l.States
	l.r.Transitions += l.Transitions
	l.r.Traces += l.Traces
	l.Evals, l.States, l.Transitions, l.Traces = 0, 0, 0, 0
	l.nontriv = map[uint64]struct{}{}
	l.outcomes = map[string]int64{}
}

func (r *Rec) Sample(s any) {
	r.mu.Lock()
	defer r.mu.Unlock()
	if len(r.samples) < r.maxSamples {
		r.samples = append(r.samples, s)
	}
}

func (r *Rec) Violation(sig, msg string, detail any) { r.violation(sig, msg, detail, nil) }

func (r *Rec) violation(sig, msg string, detail any, c *CaseRef) {
	r.mu.Lock()
	defer r.mu.Unlock()
	r.violCount[sig]++
	if old, ok := r.viol[sig]; !ok || len(msg) < len(old.Msg) {
		v := &Violation{Sig: sig, Msg: msg, Detail: detail}
		if c != nil {
			cc := *c
			v.Case = &cc
		}
		r.viol[sig] = v
	}
}

// StatesFromOutcomes makes Finish report the number of distinct outcome keys as the number of states.
func (r *Rec) StatesFromOutcomes() { r.Extra["states_are_outcomes"] = true }

// numFresh counts recorded violations that are not listed as known findings.
func (r *Rec) numFresh() int {
	r.mu.Lock()
	defer r.mu.Unlock()
	if r.findings == nil {
		r.findings = loadFindings()
		if r.findings == nil {
			r.findings = []Finding{}
		}
	}
	n := 0
	for s := range r.viol {
		known := false
		for _, f := range r.findings {
			if matches(f, r.ID, s) {
				known = true
			}
		}
		if !known {
			n++
		}
	}
	return n
}

// ViolationSigs / ViolationMsg expose what was recorded (used by `vc replay`).
func (r *Rec) ViolationSigs() []string {
	r.mu.Lock()
	defer r.mu.Unlock()
	out := make([]string, 0, len(r.viol))
	for s := range r.viol {
		out = append(out, s)
	}
	sort.Strings(out)
	return out
}
func (r *Rec) ViolationMsg(sig string) string {
	r.mu.Lock()
	defer r.mu.Unlock()
	if v, ok := r.viol[sig]; ok {
		return v.Msg
	}
	return ""
}

func (r *Rec) NumViolations() int { r.mu.Lock(); defer r.mu.Unlock(); return len(r.viol) }

func loadFindings() []Finding {
	b, err := os.ReadFile(filepath.Join(Root, "known_findings.json"))
	if err != nil {
		return nil
	}
	var f struct {
		Findings []Finding `json:"findings"`
	}
	if err := json.Unmarshal(b, &f); err != nil {
		fmt.Fprintf(os.Stderr, "known_findings.json unreadable: %v\n", err)
		os.Exit(2)
	}
	return f.Findings
}

func matches(f Finding, id, sig string) bool {
	if f.Property != id || f.Status != "known" {
		return false
	}
	if strings.HasSuffix(f.Sig, "*") {
		return strings.HasPrefix(sig, strings.TrimSuffix(f.Sig, "*"))
	}
	return f.Sig == sig
}

// Finish writes evidence and replay files, prints KNOWN-FINDING / VIOLATION lines and returns the exit code.
func (r *Rec) Finish() int {
	r.mu.Lock()
	defer r.mu.Unlock()
	if v, _ := r.Extra["states_are_outcomes"].(bool); v {
		r.StatesAreOutcomes = true
		delete(r.Extra, "states_are_outcomes")
	}
	findings := loadFindings()
	sigs := make([]string, 0, len(r.viol))
	for s := range r.viol {
		sigs = append(sigs, s)
	}
	sort.Strings(sigs)
	var known, fresh []string
	for _, s := range sigs {
		k := false
		for _, f := range findings {
			if matches(f, r.ID, s) {
				k = true
				break
			}
		}
		if k {
			known = append(known, s)
		} else {
			fresh = append(fresh, s)
		}
	}
	evDir, rpDir := filepath.Join(Root, "evidence"), filepath.Join(Root, "replays")
	if d := os.Getenv("VERIF_SCRATCH_OUT"); d != "" { // mutant / seeded-change runs must not overwrite committed evidence
		evDir, rpDir = filepath.Join(d, "evidence"), filepath.Join(d, "replays")
	}
	os.MkdirAll(evDir, 0o755)
	os.MkdirAll(rpDir, 0o755)
	cov := map[string]any{
		"evaluations":         r.evals,
		"distinct_nontrivial": len(r.nontriv),
		"rule":                r.Rule,
		"samples":             r.samples,
		"exhaustive":          r.Exhaustive,
		"distinct_outcomes":   len(r.outcomes),
	}
	if len(r.outcomes) <= 40 {
		cov["outcomes"] = r.outcomes
	}
	if r.StatesAreOutcomes {
		r.States = int64(len(r.outcomes))
	}
	if r.Level == "model_checking" || r.States > 0 {
		cov["states"] = r.States
		cov["transitions"] = r.Transitions
		cov["traces_validated_against_impl"] = r.Traces
	}
	for k, v := range r.Extra {
		cov[k] = v
	}
	if len(r.samples) == 0 {
		cov["samples"] = []any{"(no sample recorded)"}
	}
	knownList := []map[string]any{}
	for _, s := range known {
		knownList = append(knownList, map[string]any{"sig": s, "count": r.violCount[s], "msg": r.viol[s].Msg})
	}
	cov["known_findings_met"] = knownList
	evd := map[string]any{
		"property_id": r.ID, "tier": r.Tier, "seed": r.Seed, "level": r.Level, "coverage": cov,
		"assumptions": r.Assumptions, "wall_s": time.Since(r.start).Seconds(), "violations": len(fresh),
	}
	if evd["assumptions"] == nil || len(r.Assumptions) == 0 {
		evd["assumptions"] = []string{}
	}
	b, _ := json.MarshalIndent(evd, "", " ")
	if err := os.WriteFile(filepath.Join(evDir, r.ID+".json"), b, 0o644); err != nil {
		fmt.Fprintf(os.Stderr, "cannot write evidence: %v\n", err)
		return 2
	}
	fmt.Printf("%s tier=%s evaluations=%d distinct_nontrivial=%d outcomes=%d states=%d transitions=%d exhaustive=%v wall=%.1fs\n",
		r.ID, r.Tier, r.evals, len(r.nontriv), len(r.outcomes), r.States, r.Transitions, r.Exhaustive, time.Since(r.start).Seconds())
	for _, s := range known {
		fmt.Printf("KNOWN-FINDING: property=%s %s (%d occurrences; first: %s)\n", r.ID, s, r.violCount[s], oneLine(r.viol[s].Msg))
	}
	for _, s := range fresh {
		v := r.viol[s]
		h := sha256.Sum256([]byte(s))
		p := filepath.Join(rpDir, fmt.Sprintf("%s-%s.json", r.ID, hex.EncodeToString(h[:6])))
		rb, _ := json.MarshalIndent(map[string]any{"property": r.ID, "tier": r.Tier, "sig": v.Sig, "msg": v.Msg, "count": r.violCount[s], "detail": v.Detail, "case": v.Case}, "", " ")
		os.WriteFile(p, rb, 0o644)
		fmt.Printf("VIOLATION property=%s replay=%s\n", r.ID, p)
		fmt.Printf("  sig: %s\n  msg: %s\n", v.Sig, oneLine(v.Msg))
	}
	if len(fresh) > 0 {
		return 1
	}
	return 0
}

func oneLine(s string) string {
	s = strings.ReplaceAll(s, "\n", " | ")
	if len(s) > 600 {
		s = s[:600] + "…"
	}
	return s
}
