// Package ev collects what a check covered (counters, samples, violations), applies the committed known-findings
// list, writes /verif/evidence/<id>.json and replay files, and decides the exit code.
package ev

import (
	"crypto/sha256"
	"encoding/hex"
	"encoding/json"
	"fmt"
	"hash/fnv"
	"os"
	"path/filepath"
	"sort"
	"strings"
	"sync"
	"time"
)

var Root = func() string {
	if r := os.Getenv("VERIF_ROOT"); r != "" {
		return r
	}
	return "/verif"
}()

// Violation is one observed breach of a property. Sig is a stable, specific signature (what fails, on which input
// class / call site); it is what known_findings.json is matched against. Detail is the replayable artefact.
type Violation struct {
	Sig    string `json:"sig"`
	Msg    string `json:"msg"`
	Detail any    `json:"detail,omitempty"`
}

type Finding struct {
	Property string `json:"property"`
	Status   string `json:"status"` // "known" | "fixed"
	Sig      string `json:"sig"`    // exact signature, or prefix when it ends in '*'
	Commit   string `json:"commit,omitempty"`
	What     string `json:"what"`
}

// Rec is the recorder shared by all workers of one check run.
type Rec struct {
	ID    string
	Tier  string
	Seed  int64
	Level string
	Rule  string

	mu          sync.Mutex
	evals       int64
	nontriv     map[uint64]struct{}
	outcomes    map[string]int64
	samples     []any
	maxSamples  int
	viol        map[string]*Violation // by sig: first (smallest) one kept
	violCount   map[string]int64
	Extra       map[string]any
	Assumptions []string
	Exhaustive  bool
	start       time.Time
	Deadline    time.Time
	States      int64
	Transitions int64
	Traces      int64
}

func New(id, tier, level string) *Rec {
	seed := int64(0)
	fmt.Sscan(os.Getenv("VERIF_SEED"), &seed)
	r := &Rec{ID: id, Tier: tier, Seed: seed, Level: level, nontriv: map[uint64]struct{}{}, outcomes: map[string]int64{},
		viol: map[string]*Violation{}, violCount: map[string]int64{}, Extra: map[string]any{}, maxSamples: 6,
		Exhaustive: true, start: time.Now()}
	d := 4 * time.Minute
	if tier == "thorough" {
		d = 25 * time.Minute
	}
	if s := os.Getenv("VERIF_DEADLINE_S"); s != "" {
		var n int
		fmt.Sscan(s, &n)
		d = time.Duration(n) * time.Second
	}
	r.Deadline = r.start.Add(d)
	return r
}

func (r *Rec) Expired() bool { return time.Now().After(r.Deadline) }

func H(s string) uint64 { h := fnv.New64a(); h.Write([]byte(s)); return h.Sum64() }

// Local is a per-worker buffer merged under the lock at the end; keeps the hot path lock-free.
type Local struct {
	r        *Rec
	Evals    int64
	nontriv  map[uint64]struct{}
	outcomes map[string]int64
	States, Transitions, Traces int64
}

func (r *Rec) Local() *Local {
	return &Local{r: r, nontriv: map[uint64]struct{}{}, outcomes: map[string]int64{}}
}
func (l *Local) Eval()                 { l.Evals++ }
func (l *Local) Nontrivial(key string) { l.nontriv[H(key)] = struct{}{} }
func (l *Local) NontrivialH(h uint64)  { l.nontriv[h] = struct{}{} }
func (l *Local) Outcome(o string)      { l.outcomes[o]++ }
func (l *Local) Sample(s any)          { l.r.Sample(s) }
func (l *Local) Violation(sig, msg string, detail any) { l.r.Violation(sig, msg, detail) }
func (l *Local) Merge() {
	l.r.mu.Lock()
	defer l.r.mu.Unlock()
	l.r.evals += l.Evals
	for k := range l.nontriv {
		l.r.nontriv[k] = struct{}{}
	}
	for k, v := range l.outcomes {
		l.r.outcomes[k] += v
	}
	l.r.States += l.States
	l.r.Transitions += l.Transitions
	l.r.Traces += l.Traces
	l.Evals, l.States, l.Transitions, l.Traces = 0, 0, 0, 0
	l.nontriv = map[uint64]struct{}{}
	l.outcomes = map[string]int64{}
}

func (r *Rec) Sample(s any) {
	r.mu.Lock()
	defer r.mu.Unlock()
	if len(r.samples) < r.maxSamples {
		r.samples = append(r.samples, s)
	}
}

func (r *Rec) Violation(sig, msg string, detail any) {
	r.mu.Lock()
	defer r.mu.Unlock()
	r.violCount[sig]++
	if old, ok := r.viol[sig]; !ok || len(msg) < len(old.Msg) {
		r.viol[sig] = &Violation{Sig: sig, Msg: msg, Detail: detail}
	}
}

// StatesFromOutcomes sets States to the number of distinct outcome keys recorded so far.
func (r *Rec) StatesFromOutcomes() { r.mu.Lock(); defer r.mu.Unlock(); r.States = int64(len(r.outcomes)) }

func (r *Rec) NumViolations() int { r.mu.Lock(); defer r.mu.Unlock(); return len(r.viol) }

func loadFindings() []Finding {
	b, err := os.ReadFile(filepath.Join(Root, "known_findings.json"))
	if err != nil {
		return nil
	}
	var f struct {
		Findings []Finding `json:"findings"`
	}
	if err := json.Unmarshal(b, &f); err != nil {
		fmt.Fprintf(os.Stderr, "known_findings.json unreadable: %v\n", err)
		os.Exit(2)
	}
	return f.Findings
}

func matches(f Finding, id, sig string) bool {
	if f.Property != id || f.Status != "known" {
		return false
	}
	if strings.HasSuffix(f.Sig, "*") {
		return strings.HasPrefix(sig, strings.TrimSuffix(f.Sig, "*"))
	}
	return f.Sig == sig
}

// Finish writes evidence and replay files, prints KNOWN-FINDING / VIOLATION lines and returns the exit code.
func (r *Rec) Finish() int {
	r.mu.Lock()
	defer r.mu.Unlock()
	findings := loadFindings()
	sigs := make([]string, 0, len(r.viol))
	for s := range r.viol {
		sigs = append(sigs, s)
	}
	sort.Strings(sigs)
	var known, fresh []string
	for _, s := range sigs {
		k := false
		for _, f := range findings {
			if matches(f, r.ID, s) {
				k = true
				break
			}
		}
		if k {
			known = append(known, s)
		} else {
			fresh = append(fresh, s)
		}
	}
	os.MkdirAll(filepath.Join(Root, "evidence"), 0o755)
	os.MkdirAll(filepath.Join(Root, "replays"), 0o755)
	cov := map[string]any{
		"evaluations":         r.evals,
		"distinct_nontrivial": len(r.nontriv),
		"rule":                r.Rule,
		"samples":             r.samples,
		"exhaustive":          r.Exhaustive,
		"distinct_outcomes":   len(r.outcomes),
	}
	if len(r.outcomes) <= 40 {
		cov["outcomes"] = r.outcomes
	}
	if r.Level == "model_checking" || r.States > 0 {
		cov["states"] = r.States
		cov["transitions"] = r.Transitions
		cov["traces_validated_against_impl"] = r.Traces
	}
	for k, v := range r.Extra {
		cov[k] = v
	}
	if len(r.samples) == 0 {
		cov["samples"] = []any{"(no sample recorded)"}
	}
	knownList := []map[string]any{}
	for _, s := range known {
		knownList = append(knownList, map[string]any{"sig": s, "count": r.violCount[s], "msg": r.viol[s].Msg})
	}
	cov["known_findings_met"] = knownList
	evd := map[string]any{
		"property_id": r.ID, "tier": r.Tier, "seed": r.Seed, "level": r.Level, "coverage": cov,
		"assumptions": r.Assumptions, "wall_s": time.Since(r.start).Seconds(), "violations": len(fresh),
	}
	if evd["assumptions"] == nil || len(r.Assumptions) == 0 {
		evd["assumptions"] = []string{}
	}
	b, _ := json.MarshalIndent(evd, "", " ")
	if err := os.WriteFile(filepath.Join(Root, "evidence", r.ID+".json"), b, 0o644); err != nil {
		fmt.Fprintf(os.Stderr, "cannot write evidence: %v\n", err)
		return 2
	}
	fmt.Printf("%s tier=%s evaluations=%d distinct_nontrivial=%d outcomes=%d states=%d transitions=%d exhaustive=%v wall=%.1fs\n",
		r.ID, r.Tier, r.evals, len(r.nontriv), len(r.outcomes), r.States, r.Transitions, r.Exhaustive, time.Since(r.start).Seconds())
	for _, s := range known {
		fmt.Printf("KNOWN-FINDING: property=%s %s (%d occurrences; first: %s)\n", r.ID, s, r.violCount[s], oneLine(r.viol[s].Msg))
	}
	for _, s := range fresh {
		v := r.viol[s]
		h := sha256.Sum256([]byte(s))
		p := filepath.Join(Root, "replays", fmt.Sprintf("%s-%s.json", r.ID, hex.EncodeToString(h[:6])))
		rb, _ := json.MarshalIndent(map[string]any{"property": r.ID, "tier": r.Tier, "sig": v.Sig, "msg": v.Msg, "count": r.violCount[s], "detail": v.Detail}, "", " ")
		os.WriteFile(p, rb, 0o644)
		fmt.Printf("VIOLATION property=%s replay=%s\n", r.ID, p)
		fmt.Printf("  sig: %s\n  msg: %s\n", v.Sig, oneLine(v.Msg))
	}
	if len(fresh) > 0 {
		return 1
	}
	return 0
}

func oneLine(s string) string {
	s = strings.ReplaceAll(s, "\n", " | ")
	if len(s) > 600 {
		s = s[:600] + "…"
	}
	return s
}
