// Package gls gives the harness goroutine-local storage (keyed by goroutine id parsed from runtime.Stack) so that
// process-global hook variables can dispatch to the world that is running on the calling goroutine.
package gls

import (
	"runtime"
	"sync"
)

var m sync.Map // goid -> any

func ID() uint64 {
	var buf [64]byte
	n := runtime.Stack(buf[:], false)
	// "goroutine 123 [running]:..."
	var id uint64
	for i := len("goroutine "); i < n; i++ {
		c := buf[i]
		if c < '0' || c > '9' {
			break
		}
		id = id*10 + uint64(c-'0')
	}
	return id
}

func Set(v any)  { m.Store(ID(), v) }
func Clear()     { m.Delete(ID()) }
func Get() any   { v, _ := m.Load(ID()); return v }
func With(v any, f func()) {
	Set(v)
	defer Clear()
	f()
}
