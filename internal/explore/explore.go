// Package explore is a stateless, deviation-bounded explorer over choice sequences (CHESS-style iterative context
// bounding generalised to faults, environment answers and worker completion orders). An execution asks Choose at every
// choice point; the explorer replays a prefix and then takes alternative 0 (the default, cost 0). Every alternative has
// a cost in "deviations"; all executions whose total cost is within the bound are enumerated, each exactly once.
package explore

import "fmt"

type Point struct {
	Kind   string
	N      int
	Chosen int
	Costs  []int // cost of each alternative (Costs[0] == 0)
	Label  string
}

type Run struct {
	prefix []int
	kinds  []string
	Trace  []Point
	Used   int // deviations used so far
}

// Choose returns the alternative to take at this point. n >= 1. cost(alt) is the deviation cost of alternative alt>0.
func (r *Run) Choose(kind string, n int, cost func(alt int) int) int {
	if n <= 0 {
		panic("explore: Choose with no alternatives")
	}
	i := len(r.Trace)
	c := 0
	if i < len(r.prefix) {
		c = r.prefix[i]
		if c >= n || (i < len(r.kinds) && r.kinds[i] != kind) {
			panic(fmt.Sprintf("explore: replay diverged at point %d: want kind %q choice %d, got kind %q with %d alternatives (nondeterminism the harness does not own)", i, kindAt(r.kinds, i), c, kind, n))
		}
	}
	costs := make([]int, n)
	for a := 1; a < n; a++ {
		if cost != nil {
			costs[a] = cost(a)
		} else {
			costs[a] = 1
		}
	}
	r.Used += costs[c]
	r.Trace = append(r.Trace, Point{Kind: kind, N: n, Chosen: c, Costs: costs})
	return c
}

func kindAt(k []string, i int) string {
	if i < len(k) {
		return k[i]
	}
	return "?"
}

func (r *Run) Choices() []int {
	out := make([]int, len(r.Trace))
	for i, p := range r.Trace {
		out[i] = p.Chosen
	}
	return out
}

// Replay builds a Run that follows the given choices and then defaults.
func Replay(choices []int) *Run { return &Run{prefix: choices} }

type Explorer struct {
	Bound    int
	MaxExecs int // 0 = unlimited
	Exec     func(r *Run)
	Stop     func() bool // optional early stop (deadline)

	Execs  int
	Capped bool
	Points int
}

// Explore enumerates all executions within the bound (depth-first). Returns the number of executions.
func (e *Explorer) Explore() int {
	e.explore(nil, nil)
	return e.Execs
}

func (e *Explorer) explore(prefix []int, kinds []string) {
	if e.Capped {
		return
	}
	if (e.MaxExecs > 0 && e.Execs >= e.MaxExecs) || (e.Stop != nil && e.Stop()) {
		e.Capped = true
		return
	}
	r := &Run{prefix: prefix, kinds: kinds}
	e.Exec(r)
	e.Execs++
	e.Points += len(r.Trace)
	ks := make([]string, len(r.Trace))
	for i, p := range r.Trace {
		ks[i] = p.Kind
	}
	used := 0
	for i := 0; i < len(r.Trace); i++ {
		p := r.Trace[i]
		if i >= len(prefix) {
			for alt := 1; alt < p.N; alt++ {
				if used+p.Costs[alt] > e.Bound {
					continue
				}
				np := make([]int, i+1)
				for j := 0; j < i; j++ {
					np[j] = r.Trace[j].Chosen
				}
				np[i] = alt
				e.explore(np, ks[:i+1])
			}
		}
		used += p.Costs[p.Chosen]
	}
}
