// Package explore is a stateless, deviation-bounded explorer over choice sequences (CHESS-style iterative context
// bounding generalised to faults, environment answers and worker completion orders). An execution asks Choose at every
// choice point; the explorer replays a prefix and then takes alternative 0 (the default, cost 0). Every alternative has
// a cost in "deviations"; all executions whose total cost is within the bound are enumerated, each exactly once.
package explore

import (
	"fmt"
	"sort"
	"strings"
)

type Point struct {
	Kind   string
	N      int
	Chosen int
	Costs  []int // cost of each alternative (Costs[0] == 0)
	Label  string
	KSeen  int // number of keyed points passed before this point (time order between the two kinds of point)
}

// KeyedPoint is a choice point identified by a stable key (e.g. the k-th occurrence of an API call signature) rather
// than by its position in the execution: positions of calls may shift with nondeterminism the harness does not own
// (Go map iteration), the key does not.
type KeyedPoint struct {
	Key    string
	N      int
	Chosen int
	Pos    int // number of positional points passed before this point
}

// Diverged is the panic value raised when a positional prefix cannot be replayed.
type Diverged struct{ Msg string }

func (d Diverged) Error() string { return d.Msg }

type Run struct {
	prefix []int
	kinds  []string
	plan   map[string]int // keyed deviations: key -> alternative
	occ    map[string]int
	Trace  []Point
	Keyed  []KeyedPoint
	Used   int // deviations used so far
	// Replica: this is the root execution of an exploration split over several shard processes, repeated by a shard
	// other than the first (needed to learn the first-level alternatives; not to be counted twice)
	Replica bool
}

// ChooseKeyed is Choose for a point identified by sig and its occurrence number within this execution. The default
// (0) is taken unless the run's plan names this key. Every alternative costs one deviation.
func (r *Run) ChooseKeyed(sig string, n int) int {
	if r.occ == nil {
		r.occ = map[string]int{}
	}
	r.occ[sig]++
	key := fmt.Sprintf("%s#%d", sig, r.occ[sig])
	c := 0
	if a, ok := r.plan[key]; ok && a < n {
		c = a
		r.Used++
	}
	r.Keyed = append(r.Keyed, KeyedPoint{Key: key, N: n, Chosen: c, Pos: len(r.Trace)})
	return c
}

// Plan returns the keyed deviations this run was asked to take.
func (r *Run) Plan() map[string]int {
	out := map[string]int{}
	for k, v := range r.plan {
		out[k] = v
	}
	return out
}

// Choose returns the alternative to take at this point. n >= 1. cost(alt) is the deviation cost of alternative alt>0.
func (r *Run) Choose(kind string, n int, cost func(alt int) int) int {
	if n <= 0 {
		panic("explore: Choose with no alternatives")
	}
	i := len(r.Trace)
	c := 0
	if i < len(r.prefix) {
		c = r.prefix[i]
		if c >= n || (i < len(r.kinds) && r.kinds[i] != kind) {
			panic(Diverged{fmt.Sprintf("explore: replay diverged at point %d: want kind %q choice %d, got kind %q with %d alternatives (nondeterminism the harness does not own)", i, kindAt(r.kinds, i), c, kind, n)})
		}
	}
	costs := make([]int, n)
	for a := 1; a < n; a++ {
		if cost != nil {
			costs[a] = cost(a)
		} else {
			costs[a] = 1
		}
	}
	r.Used += costs[c]
	r.Trace = append(r.Trace, Point{Kind: kind, N: n, Chosen: c, Costs: costs, KSeen: len(r.Keyed)})
	return c
}

func kindAt(k []string, i int) string {
	if i < len(k) {
		return k[i]
	}
	return "?"
}

func (r *Run) Choices() []int {
	out := make([]int, len(r.Trace))
	for i, p := range r.Trace {
		out[i] = p.Chosen
	}
	return out
}

// Replay builds a Run that follows the given choices and then defaults.
func Replay(choices []int) *Run { return &Run{prefix: choices} }

// ReplayPlan is Replay with keyed deviations.
func ReplayPlan(choices []int, plan map[string]int) *Run { return &Run{prefix: choices, plan: plan} }

type Explorer struct {
	Bound    int
	MaxExecs int // 0 = unlimited
	Exec     func(r *Run)
	Stop     func() bool // optional early stop (deadline)

	// Shard/NShards: when NShards > 1 only the first-level subtrees numbered Shard modulo NShards are explored (the
	// root execution is run by every shard, flagged Replica except in shard 0).
	Shard, NShards int

	Execs  int
	Capped bool
	Points int
	level1 int
	// Diverged counts prefixes without keyed deviations that could not be replayed (nondeterminism the harness does
	// not own; their subtrees are not explored); OnDiverged is told. Invalid counts (prefix, plan) combinations in
	// which a keyed deviation fired before the end of the positional prefix and changed the menus the prefix was
	// recorded against: such a combination is not a real execution plan (the same deviations taken in time order are
	// reached through another route, see explore()), so skipping it loses nothing.
	Diverged   int
	Invalid    int
	OnDiverged func(msg string)

	seen map[string]bool
}

// Explore enumerates all executions within the bound (depth-first). Returns the number of executions.
func (e *Explorer) Explore() int {
	e.seen = map[string]bool{}
	e.explore(nil, nil, nil)
	return e.Execs
}

func planKey(prefix []int, plan map[string]int) string {
	n := len(prefix)
	for n > 0 && prefix[n-1] == 0 {
		n--
	}
	var b strings.Builder
	fmt.Fprint(&b, prefix[:n])
	keys := make([]string, 0, len(plan))
	for k := range plan {
		keys = append(keys, k)
	}
	sort.Strings(keys)
	for _, k := range keys {
		fmt.Fprintf(&b, "|%s=%d", k, plan[k])
	}
	return b.String()
}

func (e *Explorer) run(r *Run) (ok bool) {
	defer func() {
		if p := recover(); p != nil {
			d, isDiv := p.(Diverged)
			if !isDiv {
				panic(p)
			}
			if len(r.plan) > 0 {
				e.Invalid++
			} else {
				e.Diverged++
				if e.OnDiverged != nil {
					e.OnDiverged(d.Msg)
				}
			}
			ok = false
		}
	}()
	e.Exec(r)
	return true
}

func (e *Explorer) explore(prefix []int, kinds []string, plan map[string]int) {
	if e.Capped {
		return
	}
	if len(plan) > 0 { // keyed deviations can be added in any order: visit each (prefix, plan) once
		k := planKey(prefix, plan)
		if e.seen[k] {
			return
		}
		e.seen[k] = true
	}
	if (e.MaxExecs > 0 && e.Execs >= e.MaxExecs) || (e.Stop != nil && e.Stop()) {
		e.Capped = true
		return
	}
	root := prefix == nil && len(plan) == 0
	r := &Run{prefix: prefix, kinds: kinds, plan: plan, Replica: root && e.NShards > 1 && e.Shard != 0}
	if !e.run(r) {
		return
	}
	if !r.Replica {
		e.Execs++
		e.Points += len(r.Trace) + len(r.Keyed)
	}
	mine := func() bool { // first-level subtrees are dealt round-robin over the shards
		if !root || e.NShards <= 1 {
			return true
		}
		e.level1++
		return (e.level1-1)%e.NShards == e.Shard
	}
	ks := make([]string, len(r.Trace))
	for i, p := range r.Trace {
		ks[i] = p.Kind
	}
	// Deviations are added in TIME ORDER (each real execution within the bound is then reached by exactly one route:
	// its deviations sorted by the time they occur; the intermediate executions agree with it up to the next
	// deviation, so that deviation is observable there). lastFired = index of the last keyed deviation that fired.
	lastFired := -1
	for j, kp := range r.Keyed {
		if kp.Chosen > 0 {
			lastFired = j
		}
	}
	base := len(plan) // every planned keyed deviation counts against the bound
	used := base
	for i := 0; i < len(r.Trace); i++ {
		p := r.Trace[i]
		if i >= len(prefix) && p.KSeen > lastFired {
			for alt := 1; alt < p.N; alt++ {
				if used+p.Costs[alt] > e.Bound {
					continue
				}
				np := make([]int, i+1)
				for j := 0; j < i; j++ {
					np[j] = r.Trace[j].Chosen
				}
				np[i] = alt
				if mine() {
					e.explore(np, ks[:i+1], plan)
				}
			}
		}
		used += p.Costs[p.Chosen]
	}
	// keyed alternatives: same positional prefix, one more keyed deviation, later in time than every deviation so far
	posUsed := 0
	for i := 0; i < len(prefix) && i < len(r.Trace); i++ {
		posUsed += r.Trace[i].Costs[r.Trace[i].Chosen]
	}
	if base+posUsed+1 <= e.Bound {
		for j, kp := range r.Keyed {
			if j <= lastFired || kp.Pos < len(prefix) {
				continue
			}
			if _, planned := plan[kp.Key]; planned {
				continue
			}
			for alt := 1; alt < kp.N; alt++ {
				np := make(map[string]int, len(plan)+1)
				for k, v := range plan {
					np[k] = v
				}
				np[kp.Key] = alt
				if mine() {
					e.explore(prefix, kinds, np)
				}
			}
		}
	}
}
