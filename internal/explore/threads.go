package explore

import (
	"fmt"
	"runtime"
	"runtime/debug"
	"strings"
	"sync"
)

// Threads is a cooperative scheduler for a handful of logical threads (real goroutines gated so that exactly one runs
// at a time). Code under test calls Yield at its scheduling points (every API / provider call, thread start); the
// scheduler then asks the Run which enabled thread continues: keeping the current one (or, when it finished or went
// idle, the next one in the priority order in which the threads were registered) is the default (cost 0); any other
// choice costs one deviation. Drivers vary the registration order to cover different base orders. A panic inside a thread is captured and reported, never propagated.
type Threads struct {
	run     *Run
	threads []*thread
	cur     int
	yielded chan struct{}
	Panics  []string
	Trace   []string // "thread@label" for every scheduling decision
	// OnPoint is called (on the scheduler goroutine, with every thread parked) before each scheduling decision: the place
	// for invariants that must hold in every reachable state.
	OnPoint func()
	Steps   int
	MaxSteps int
	running bool
	omu     sync.Mutex
	owner   map[uint64]*thread
	// Free: no scheduling at all — Run starts every thread as a free-running goroutine and waits for them; Yield is a no-op.
	// Used only by the separate race-detector pass (a cooperative scheduler's hand-offs are happens-before edges that
	// blind the detector).
	Free bool
}

type thread struct {
	name   string
	fn     func()
	wake   chan struct{}
	done   bool
	label  string // label of the point it is parked at
	started bool
	idle   bool // parked waiting for work: switching away from it is not a preemption
	ymu    sync.Mutex
}

func NewThreads(run *Run) *Threads {
	return &Threads{run: run, yielded: make(chan struct{}), cur: -1, MaxSteps: 10000, owner: map[uint64]*thread{}}
}

func (s *Threads) Go(name string, fn func()) {
	s.threads = append(s.threads, &thread{name: name, fn: fn, wake: make(chan struct{}), label: "start"})
}

// YieldIdle parks the current thread at a point where it merely waits for work (an empty work queue): another thread
// taking over is not a preemption.
func (s *Threads) YieldIdle(label string) {
	if s == nil || s.cur < 0 {
		return
	}
	if t := s.ownerOf(); t != nil {
		t.idle = true
	}
	s.Yield(label)
}

// Yield is a scheduling point of the calling goroutine's thread. Goroutines are attributed to threads by goroutine id:
// a thread's main goroutine is registered when it starts; a goroutine the thread fanned out to (client-go
// ParallelizeUntil) is attributed through the "created by ... in goroutine N" line of its stack. Siblings of one thread
// reach their scheduling points concurrently; a per-thread turnstile admits one at a time, the others queue until their
// thread runs again. Outside of Run it is a no-op.
func (s *Threads) Yield(label string) {
	if s == nil || !s.running {
		return
	}
	t := s.ownerOf()
	if t == nil {
		return
	}
	t.ymu.Lock()
	defer t.ymu.Unlock()
	t.label = label
	s.yielded <- struct{}{}
	<-t.wake
}

func (s *Threads) ownerOf() *thread {
	var buf [32768]byte
	n := runtime.Stack(buf[:], false)
	st := string(buf[:n])
	id := parseGoid(st, "goroutine ")
	s.omu.Lock()
	defer s.omu.Unlock()
	if t, ok := s.owner[id]; ok {
		return t
	}
	var t *thread
	if i := strings.LastIndex(st, " in goroutine "); i >= 0 {
		t = s.owner[parseGoid(st[i:], " in goroutine ")]
	}
	if t == nil && s.cur >= 0 {
		t = s.threads[s.cur] // stack too deep to see the creator: only the running thread can have spawned it
	}
	if t != nil {
		s.owner[id] = t
	}
	return t
}

func parseGoid(s, prefix string) uint64 {
	var id uint64
	for i := len(prefix); i < len(s); i++ {
		if s[i] < '0' || s[i] > '9' {
			break
		}
		id = id*10 + uint64(s[i]-'0')
	}
	return id
}

func (s *Threads) Current() string {
	if s == nil || s.cur < 0 {
		return ""
	}
	return s.threads[s.cur].name
}

// Run executes all threads to completion under the schedule chosen by the Run.
func (s *Threads) Run() {
	if s.Free {
		var wg sync.WaitGroup
		for _, t := range s.threads {
			wg.Add(1)
			go func(t *thread) {
				defer wg.Done()
				defer func() {
					if p := recover(); p != nil {
						s.omu.Lock()
						s.Panics = append(s.Panics, fmt.Sprintf("thread %s panicked: %v\n%s", t.name, p, debug.Stack()))
						s.omu.Unlock()
					}
				}()
				t.fn()
			}(t)
		}
		wg.Wait()
		return
	}
	s.running = true
	defer func() { s.running = false }()
	for {
		var enabled []int
		for i, t := range s.threads {
			if !t.done {
				enabled = append(enabled, i)
			}
		}
		if len(enabled) == 0 {
			s.cur = -1
			return
		}
		if s.OnPoint != nil {
			s.OnPoint()
		}
		s.Steps++
		if s.Steps > s.MaxSteps {
			s.Panics = append(s.Panics, "scheduler: step horizon exceeded (livelock?)")
			s.cur = -1
			return
		}
		// canonical order: the current thread first if it can continue, then the runnable threads in priority order,
		// then the idle ones. Every non-default choice costs one deviation (a preemption, or a departure from the
		// priority order at a point where the current thread finished / went idle).
		var order []int
		if s.cur >= 0 && !s.threads[s.cur].done && !s.threads[s.cur].idle {
			order = append(order, s.cur)
		}
		for _, i := range enabled {
			if !s.threads[i].idle && (len(order) == 0 || i != order[0]) {
				order = append(order, i)
			}
		}
		for _, i := range enabled {
			if s.threads[i].idle {
				order = append(order, i)
			}
		}
		k := 0
		if len(order) > 1 {
			k = s.run.Choose("thread", len(order), nil)
		}
		next := order[k]
		s.cur = next
		t := s.threads[next]
		t.idle = false
		s.Trace = append(s.Trace, t.name+"@"+t.label)
		if !t.started {
			t.started = true
			go func() {
				<-t.wake
				s.omu.Lock()
				var b [64]byte
				s.owner[parseGoid(string(b[:runtime.Stack(b[:], false)]), "goroutine ")] = t
				s.omu.Unlock()
				defer func() {
					if p := recover(); p != nil {
						s.Panics = append(s.Panics, fmt.Sprintf("thread %s panicked: %v\n%s", t.name, p, debug.Stack()))
					}
					t.done = true
					s.yielded <- struct{}{}
				}()
				t.fn()
			}()
		}
		t.wake <- struct{}{}
		<-s.yielded
	}
}
