// Package enum runs a finite indexed space of cases completely, sharded over worker goroutines.
package enum

import (
	"fmt"
	"os"
	"runtime"
	"runtime/debug"
	"sync"
	"sync/atomic"

	"verif/internal/ev"
)

func Workers() int {
	n := runtime.NumCPU()
	if s := os.Getenv("VERIF_SHARDS"); s != "" {
		fmt.Sscan(s, &n)
	}
	if os.Getenv("VERIF_INPROC") != "" {
		n = 1 // hooks and package-level knobs of the code under test are process-global
	}
	if n < 1 {
		n = 1
	}
	return n
}

// Run executes f(i, local) for every i in [0,n). Cases are handed out in index order in blocks; a panic inside a case is
// reported as a violation with signature "panic:<where>" unless the case function recovers itself. Stops at the
// recorder's deadline and marks the run non-exhaustive (exit code unaffected).
func Run(r *ev.Rec, n int64, f func(i int64, l *ev.Local)) {
	part := nextPart()
	if only != nil {
		runOnly(r, part, n, f)
		return
	}
	block := int64(16)
	if n > 1<<20 {
		block = 1024
	}
	if n < 256 {
		block = 1
	}
	if r.Shards > 1 || os.Getenv("VERIF_SHARD") != "" {
		// shard process: single goroutine. Cases are dealt to the shards by a hash of their index: the cost of a case is a
		// function of its digits, so any regular dealing (round-robin of cases or blocks) resonates with the mixed-radix
		// layout of the product and leaves some shards with several times the work of others.
		l := r.Local()
		defer l.Merge()
		var done int64
		shards := uint64(r.Shards)
		if shards == 0 {
			shards = 1
		}
		for i := int64(0); i < n; i++ {
			if mix(uint64(i))%shards != uint64(r.Shard) {
				continue
			}
			if done%16 == 0 && r.Expired() {
				r.Exhaustive = false
				r.Extra["deadline_hit"] = true
				break
			}
			runOne(r, part, i, l, f)
			done++
		}
		if v, ok := r.Extra["cases_completed_sum"].(float64); ok {
			r.Extra["cases_completed_sum"] = v + float64(done)
		} else {
			r.Extra["cases_completed_sum"] = float64(done)
		}
		return
	}
	var next int64
	var done int64
	var wg sync.WaitGroup
	var expired atomic.Bool
	for w := 0; w < Workers(); w++ {
		wg.Add(1)
		go func() {
			defer wg.Done()
			l := r.Local()
			defer l.Merge()
			for {
				lo := atomic.AddInt64(&next, block) - block
				if lo >= n {
					return
				}
				if r.Expired() {
					expired.Store(true)
					return
				}
				hi := lo + block
				if hi > n {
					hi = n
				}
				for i := lo; i < hi; i++ {
					runOne(r, part, i, l, f)
				}
				atomic.AddInt64(&done, hi-lo)
			}
		}()
	}
	wg.Wait()
	if expired.Load() {
		r.Exhaustive = false
		r.Extra["deadline_hit"] = true
	}
	r.Extra["cases_completed_sum"] = float64(atomic.LoadInt64(&done))
}

// RunEveryShard executes f(i, local) for every i in [0,n) in EVERY shard process: f itself splits the work of one case
// over the shards (explore.Explorer.Shard/NShards: the first-level subtrees of an exploration are dealt round-robin).
// Used where the cases are few and of very unequal size.
func RunEveryShard(r *ev.Rec, n int64, f func(i int64, l *ev.Local)) {
	part := nextPart()
	if only != nil {
		runOnly(r, part, n, f)
		return
	}
	l := r.Local()
	defer l.Merge()
	var done int64
	for i := int64(0); i < n; i++ {
		if r.Expired() {
			r.Exhaustive = false
			r.Extra["deadline_hit"] = true
			break
		}
		runOne(r, part, i, l, f)
		done++
	}
	if r.Shard == 0 {
		if v, ok := r.Extra["cases_completed_sum"].(float64); ok {
			r.Extra["cases_completed_sum"] = v + float64(done)
		} else {
			r.Extra["cases_completed_sum"] = float64(done)
		}
	}
}

// Parts are numbered in program order: a check calls Run / RunEveryShard sequentially, so the numbering is the same in
// every process that runs the same check at the same tier.
var (
	partSeq int64
	only    *ev.CaseRef
)

func nextPart() int { return int(atomic.AddInt64(&partSeq, 1)) - 1 }

// Only restricts every later enumeration of this process to one case (used by `vc replay`); nil lifts the restriction.
func Only(c *ev.CaseRef) { only = c; atomic.StoreInt64(&partSeq, 0) }

func runOnly(r *ev.Rec, part int, n int64, f func(i int64, l *ev.Local)) {
	if part != only.Part || only.Index >= n {
		return
	}
	l := r.Local()
	defer l.Merge()
	runOne(r, part, only.Index, l, f)
}

// mix is the splitmix64 finalizer.
func mix(x uint64) uint64 {
	x += 0x9e3779b97f4a7c15
	x = (x ^ (x >> 30)) * 0xbf58476d1ce4e5b9
	x = (x ^ (x >> 27)) * 0x94d049bb133111eb
	return x ^ (x >> 31)
}

func runOne(r *ev.Rec, part int, i int64, l *ev.Local, f func(i int64, l *ev.Local)) {
	l.Case = &ev.CaseRef{Part: part, Index: i}
	defer func() { l.Case = nil }()
	defer func() {
		if p := recover(); p != nil {
			l.Violation("harness-panic", fmt.Sprintf("case %d panicked: %v", i, p), map[string]any{"index": i, "stack": string(debug.Stack())})
		}
	}()
	f(i, l)
}

// Odo decodes index i into mixed-radix digits for the given dimension sizes (first dimension varies slowest).
func Odo(i int64, dims ...int) []int {
	out := make([]int, len(dims))
	for k := len(dims) - 1; k >= 0; k-- {
		out[k] = int(i % int64(dims[k]))
		i /= int64(dims[k])
	}
	return out
}

func Size(dims ...int) int64 {
	n := int64(1)
	for _, d := range dims {
		n *= int64(d)
	}
	return n
}
