// Package oracle holds independent reference semantics. Nothing here calls the Karpenter function it judges.
package oracle

import (
	"fmt"
	"math"
	"sort"
	"strconv"

	corev1 "k8s.io/api/core/v1"

	v1 "sigs.k8s.io/karpenter/pkg/apis/v1"
)

// Req is one Kubernetes-style node selector requirement (the API form).
type Req = v1.NodeSelectorRequirementWithMinValues

func R(key string, op corev1.NodeSelectorOperator, vals ...string) Req {
	return Req{Key: key, Operator: op, Values: vals}
}

// Sat reports whether a label state (absent, or present with value v) satisfies one requirement, by the Kubernetes
// node-affinity rules (Gte/Lte are Karpenter's inclusive variants of Gt/Lt).
func Sat(r Req, present bool, v string) bool {
	switch r.Operator {
	case corev1.NodeSelectorOpIn:
		return present && contains(r.Values, v)
	case corev1.NodeSelectorOpNotIn:
		return !present || !contains(r.Values, v)
	case corev1.NodeSelectorOpExists:
		return present
	case corev1.NodeSelectorOpDoesNotExist:
		return !present
	case corev1.NodeSelectorOpGt, corev1.NodeSelectorOpLt, v1.NodeSelectorOpGte, v1.NodeSelectorOpLte:
		if !present || len(r.Values) != 1 {
			return false
		}
		n, err := strconv.ParseInt(r.Values[0], 10, 64)
		if err != nil {
			return false
		}
		x, err := strconv.ParseInt(v, 10, 64)
		if err != nil {
			return false
		}
		switch r.Operator {
		case corev1.NodeSelectorOpGt:
			return x > n
		case corev1.NodeSelectorOpLt:
			return x < n
		case v1.NodeSelectorOpGte:
			return x >= n
		default:
			return x <= n
		}
	}
	return false
}

func contains(s []string, v string) bool {
	for _, x := range s {
		if x == v {
			return true
		}
	}
	return false
}

// SatAll: the state satisfies every requirement in reqs that is on key.
func SatAll(reqs []Req, key string, present bool, v string) bool {
	for _, r := range reqs {
		if r.Key == key && !Sat(r, present, v) {
			return false
		}
	}
	return true
}

func OnKey(reqs []Req, key string) []Req {
	var out []Req
	for _, r := range reqs {
		if r.Key == key {
			out = append(out, r)
		}
	}
	return out
}

func Keys(reqs []Req) []string {
	m := map[string]bool{}
	for _, r := range reqs {
		m[r.Key] = true
	}
	out := make([]string, 0, len(m))
	for k := range m {
		out = append(out, k)
	}
	sort.Strings(out)
	return out
}

// Witness builds the universe W for a set of requirements: every value mentioned; every integer within 2 of a
// mentioned integer (values and bounds), each in canonical and in one non-canonical spelling (no alphabet value has a
// leading zero, so the latter is never mentioned); a fresh non-integer; two far integers. Admitted sets are finite/co-finite
// sets cut by integer intervals, so membership is constant between mentioned points: deciding emptiness or equality of
// admitted sets on W is exact.
func Witness(lists ...[]Req) []string {
	seen := map[string]bool{}
	var out []string
	add := func(s string) {
		if !seen[s] {
			seen[s] = true
			out = append(out, s)
		}
	}
	addInt := func(n int64) {
		for d := int64(-2); d <= 2; d++ {
			if (d < 0 && n < math.MinInt64-d) || (d > 0 && n > math.MaxInt64-d) {
				continue
			}
			add(strconv.FormatInt(n+d, 10))
			// a non-canonical spelling of the same integer ("01", "-01"): Kubernetes parses label values with
			// ParseInt, so every integer has infinitely many spellings and a finite NotIn list can never exclude them all
			if m := n + d; m >= 0 {
				add("0" + strconv.FormatInt(m, 10))
			} else {
				add("-0" + strconv.FormatInt(m, 10)[1:])
			}
		}
	}
	for _, l := range lists {
		for _, r := range l {
			for _, v := range r.Values {
				add(v)
				if n, err := strconv.ParseInt(v, 10, 64); err == nil {
					addInt(n)
				}
			}
		}
	}
	add("zz-fresh")
	add("1000003")
	add("-1000003")
	return out
}

// Admits returns the subset of W admitted (as a present value) by the conjunction of reqs on key.
func Admits(reqs []Req, key string, W []string) []string {
	var out []string
	for _, v := range W {
		if SatAll(reqs, key, true, v) {
			out = append(out, v)
		}
	}
	return out
}

func ReqString(r Req) string {
	s := fmt.Sprintf("%s %s %v", r.Key, r.Operator, r.Values)
	if r.MinValues != nil {
		s += fmt.Sprintf(" min=%d", *r.MinValues)
	}
	return s
}

func ReqsString(rs []Req) string {
	s := ""
	for i, r := range rs {
		if i > 0 {
			s += " & "
		}
		s += ReqString(r)
	}
	if s == "" {
		return "(none)"
	}
	return s
}
