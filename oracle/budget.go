package oracle

import (
	"math"
	"strconv"
	"strings"
	"time"
)

// Budget is the harness's own description of a disruption budget.
type Budget struct {
	Nodes    string   // "3" or "50%"
	Reasons  []string // nil or empty = all reasons
	Schedule string   // "" = none
	Duration time.Duration
	HasDur   bool
}

// cronMatches: own matcher for the 5-field subset used by the alphabets (*, */n, n, a,b) plus @daily/@hourly. ok=false
// means the schedule is not parsable (malformed).
func cronMatches(s string, t time.Time) (match, ok bool) {
	switch s {
	case "@daily", "@midnight":
		s = "0 0 * * *"
	case "@hourly":
		s = "0 * * * *"
	}
	f := strings.Fields(s)
	if len(f) != 5 {
		return false, false
	}
	vals := []int{t.Minute(), t.Hour(), t.Day(), int(t.Month()), int(t.Weekday())}
	all := true
	for i, fld := range f {
		m, ok := fieldMatches(fld, vals[i])
		if !ok {
			return false, false
		}
		all = all && m
	}
	return all, true
}

func fieldMatches(f string, v int) (bool, bool) {
	for _, part := range strings.Split(f, ",") {
		switch {
		case part == "*":
			return true, true
		case strings.HasPrefix(part, "*/"):
			n, err := strconv.Atoi(part[2:])
			if err != nil || n <= 0 {
				return false, false
			}
			if v%n == 0 {
				return true, true
			}
		default:
			n, err := strconv.Atoi(part)
			if err != nil {
				return false, false
			}
			if n == v {
				return true, true
			}
		}
	}
	return false, true
}

// Active: the budget is active at now iff it has neither schedule nor duration, or some hit h of its schedule (UTC,
// second 0) satisfies h <= now < h+duration. malformed = schedule unparsable or only one of schedule/duration set.
func (b Budget) Active(now time.Time) (active, malformed bool) {
	if b.Schedule == "" && !b.HasDur {
		return true, false
	}
	if b.Schedule == "" || !b.HasDur {
		return false, true
	}
	if _, ok := cronMatches(b.Schedule, now); !ok {
		return false, true
	}
	now = now.UTC()
	// scan every minute boundary h with now-d < h <= now
	h := now.Truncate(time.Minute)
	for ; h.After(now.Add(-b.Duration)); h = h.Add(-time.Minute) {
		if m, _ := cronMatches(b.Schedule, h); m {
			return true, false
		}
	}
	return false, false
}

// Allowed: most restrictive active budget that applies to the reason; percentages of n rounding up; a malformed budget
// anywhere in the list allows zero; math.MaxInt32 when nothing applies.
func Allowed(budgets []Budget, reason string, n int, now time.Time) int {
	allowed := math.MaxInt32
	for _, b := range budgets {
		active, malformed := b.Active(now)
		if malformed {
			return 0
		}
		v, ok := scaled(b.Nodes, n)
		if !ok {
			return 0
		}
		if !active {
			continue
		}
		applies := len(b.Reasons) == 0
		for _, r := range b.Reasons {
			if r == reason {
				applies = true
			}
		}
		if applies && v < allowed {
			allowed = v
		}
	}
	return allowed
}

func scaled(nodes string, n int) (int, bool) {
	if strings.HasSuffix(nodes, "%") {
		p, err := strconv.Atoi(strings.TrimSuffix(nodes, "%"))
		if err != nil || p < 0 {
			return 0, false
		}
		return (p*n + 99) / 100, true
	}
	v, err := strconv.Atoi(nodes)
	if err != nil || v < 0 {
		return 0, false
	}
	return v, true
}
