package oracle

import (
	"fmt"
	"sort"
	"strings"

	corev1 "k8s.io/api/core/v1"
)

// NodeView is what kube-scheduler's filter plugins would see of a (real or prospective) node.
type NodeView struct {
	Name      string
	Labels    map[string]string
	Taints    []corev1.Taint // taints that count (exemptions already applied by the caller, see EffectiveTaints)
	AllocCPUm int64
	AllocMem  int64
	AllocPods int64
	AllocExt  map[string]int64 // extended resources, whole units
	Pods      []*corev1.Pod    // pods already there or assigned there (excluding the pod under test), incl. expected daemons
	// Volumes
	VolumeLimits map[string]int      // CSI driver -> max distinct volumes (absent = unlimited)
	PodVolumes   map[string][]Volume // pod name -> PVC-backed volumes it mounts
}

type Volume struct {
	Driver string
	ID     string     // pvc identity
	Zones  []string   // zones the volume can be used from (nil = any)
}

// PodRequest = max(sum of containers, max of init containers) + overhead, as kube-scheduler computes it.
func PodCPUm(p *corev1.Pod) int64 { return podReq(p, corev1.ResourceCPU, true) }
func PodMem(p *corev1.Pod) int64  { return podReq(p, corev1.ResourceMemory, false) }
func PodExt(p *corev1.Pod, name string) int64 {
	return podReq(p, corev1.ResourceName(name), false)
}

func podReq(p *corev1.Pod, name corev1.ResourceName, milli bool) int64 {
	get := func(rl corev1.ResourceList) int64 {
		q, ok := rl[name]
		if !ok {
			return 0
		}
		if milli {
			return q.MilliValue()
		}
		return q.Value()
	}
	var sum, maxInit int64
	for _, c := range p.Spec.Containers {
		sum += get(c.Resources.Requests)
	}
	for _, c := range p.Spec.InitContainers {
		if v := get(c.Resources.Requests); v > maxInit {
			maxInit = v
		}
	}
	if maxInit > sum {
		sum = maxInit
	}
	return sum + get(p.Spec.Overhead)
}

// Tolerates: some toleration of the pod tolerates the taint (Kubernetes semantics).
func Tolerates(p *corev1.Pod, t corev1.Taint) bool {
	for _, tol := range p.Spec.Tolerations {
		if tol.Effect != "" && tol.Effect != t.Effect {
			continue
		}
		switch tol.Operator {
		case corev1.TolerationOpExists:
			if tol.Key == "" || tol.Key == t.Key {
				return true
			}
		case corev1.TolerationOpEqual, "":
			if tol.Key == t.Key && tol.Value == t.Value {
				return true
			}
		}
	}
	return false
}

type hostPort struct {
	ip    string
	port  int32
	proto corev1.Protocol
}

func hostPorts(p *corev1.Pod) []hostPort {
	var out []hostPort
	for _, cs := range [][]corev1.Container{p.Spec.Containers, p.Spec.InitContainers} {
		for _, c := range cs {
			for _, cp := range c.Ports {
				if cp.HostPort == 0 {
					continue
				}
				proto := cp.Protocol
				if proto == "" {
					proto = corev1.ProtocolTCP
				}
				ip := cp.HostIP
				if ip == "" || ip == "::" {
					ip = "0.0.0.0"
				}
				out = append(out, hostPort{ip: ip, port: cp.HostPort, proto: proto})
			}
		}
	}
	return out
}

func portsConflict(a, b hostPort) bool {
	return a.port == b.port && a.proto == b.proto && (a.ip == b.ip || a.ip == "0.0.0.0" || b.ip == "0.0.0.0")
}

// MatchesNodeSelection: nodeSelector AND (no required node affinity OR some ORIGINAL required term matches).
func MatchesNodeSelection(p *corev1.Pod, labels map[string]string) (bool, string) {
	for k, v := range p.Spec.NodeSelector {
		if got, ok := labels[k]; !ok || got != v {
			return false, fmt.Sprintf("nodeSelector %s=%s not satisfied (node has %q)", k, v, labels[k])
		}
	}
	if p.Spec.Affinity == nil || p.Spec.Affinity.NodeAffinity == nil || p.Spec.Affinity.NodeAffinity.RequiredDuringSchedulingIgnoredDuringExecution == nil {
		return true, ""
	}
	terms := p.Spec.Affinity.NodeAffinity.RequiredDuringSchedulingIgnoredDuringExecution.NodeSelectorTerms
	if len(terms) == 0 {
		return false, "required node affinity with zero terms matches nothing"
	}
	for _, t := range terms {
		ok := len(t.MatchExpressions) > 0 || len(t.MatchFields) > 0
		for _, e := range t.MatchExpressions {
			v, present := labels[e.Key]
			if !Sat(Req{Key: e.Key, Operator: e.Operator, Values: e.Values}, present, v) {
				ok = false
				break
			}
		}
		if ok {
			return true, ""
		}
	}
	return false, "no original required node-affinity term matches the node's labels"
}

// Admit returns the reasons kube-scheduler's filters would reject pod p on node n (empty = admissible).
func Admit(p *corev1.Pod, n NodeView) []string {
	var why []string
	if ok, reason := MatchesNodeSelection(p, n.Labels); !ok {
		why = append(why, reason)
	}
	for _, t := range n.Taints {
		if t.Effect != corev1.TaintEffectNoSchedule && t.Effect != corev1.TaintEffectNoExecute {
			continue
		}
		if !Tolerates(p, t) {
			why = append(why, fmt.Sprintf("taint %s=%s:%s not tolerated", t.Key, t.Value, t.Effect))
		}
	}
	for _, hp := range hostPorts(p) {
		for _, q := range n.Pods {
			for _, hq := range hostPorts(q) {
				if portsConflict(hp, hq) {
					why = append(why, fmt.Sprintf("host port %d/%s conflicts with pod %s", hp.port, hp.proto, q.Name))
				}
			}
		}
	}
	cpu, mem, cnt := PodCPUm(p), PodMem(p), int64(1)
	for _, q := range n.Pods {
		cpu += PodCPUm(q)
		mem += PodMem(q)
		cnt++
	}
	if cpu > n.AllocCPUm {
		why = append(why, fmt.Sprintf("cpu: %dm requested in total > %dm allocatable", cpu, n.AllocCPUm))
	}
	if mem > n.AllocMem {
		why = append(why, fmt.Sprintf("memory: %d requested in total > %d allocatable", mem, n.AllocMem))
	}
	if cnt > n.AllocPods {
		why = append(why, fmt.Sprintf("pods: %d > %d allocatable", cnt, n.AllocPods))
	}
	exts := map[string]bool{}
	for _, c := range p.Spec.Containers {
		for name := range c.Resources.Requests {
			if strings.Contains(string(name), "/") {
				exts[string(name)] = true
			}
		}
	}
	for name := range exts {
		tot := PodExt(p, name)
		for _, q := range n.Pods {
			tot += PodExt(q, name)
		}
		if tot > n.AllocExt[name] {
			why = append(why, fmt.Sprintf("%s: %d requested in total > %d allocatable", name, tot, n.AllocExt[name]))
		}
	}
	// volumes: zone reachability and CSI attach limits
	zone, hasZone := n.Labels[corev1.LabelTopologyZone]
	for _, v := range n.PodVolumes[p.Name] {
		if len(v.Zones) > 0 && (!hasZone || !contains(v.Zones, zone)) {
			why = append(why, fmt.Sprintf("volume %s is only usable from zones %v, node is in %q", v.ID, v.Zones, zone))
		}
	}
	if len(n.VolumeLimits) > 0 {
		per := map[string]map[string]bool{}
		count := func(podName string) {
			for _, v := range n.PodVolumes[podName] {
				if per[v.Driver] == nil {
					per[v.Driver] = map[string]bool{}
				}
				per[v.Driver][v.ID] = true
			}
		}
		count(p.Name)
		for _, q := range n.Pods {
			count(q.Name)
		}
		for drv, ids := range per {
			if lim, ok := n.VolumeLimits[drv]; ok && len(ids) > lim && len(n.PodVolumes[p.Name]) > 0 {
				why = append(why, fmt.Sprintf("CSI driver %s: %d volumes > limit %d", drv, len(ids), lim))
			}
		}
	}
	sort.Strings(why)
	return why
}

// EffectiveTaints applies Karpenter's documented exemption: for a managed node that is not initialized, the startup
// taints of its NodeClaim and the well-known ephemeral taints are ignored.
func EffectiveTaints(taints []corev1.Taint, managedUninitialized bool, startup []corev1.Taint) []corev1.Taint {
	if !managedUninitialized {
		return taints
	}
	var out []corev1.Taint
	for _, t := range taints {
		switch t.Key {
		case "node.kubernetes.io/not-ready", "node.kubernetes.io/unreachable", "node.cloudprovider.kubernetes.io/uninitialized", "karpenter.sh/unregistered":
			continue
		}
		skip := false
		for _, s := range startup {
			if s.Key == t.Key && s.Effect == t.Effect {
				skip = true
			}
		}
		if !skip {
			out = append(out, t)
		}
	}
	return out
}
