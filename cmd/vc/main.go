package main

import (
	"fmt"
	"os"
	"sort"

	"verif/checks"
	"verif/internal/ev"
)

func usage() {
	ids := []string{}
	for id := range checks.Registry {
		ids = append(ids, id)
	}
	sort.Strings(ids)
	fmt.Fprintf(os.Stderr, "usage: vc check <id> [quick|thorough]\nchecks: %v\n", ids)
	os.Exit(2)
}

func main() {
	if len(os.Args) >= 2 && os.Args[1] == "smoke" {
		checks.Smoke()
		return
	}
	if len(os.Args) < 3 || os.Args[1] != "check" {
		usage()
	}
	id := os.Args[2]
	tier := "quick"
	if len(os.Args) > 3 {
		tier = os.Args[3]
	}
	if t := os.Getenv("VERIF_TIER"); t == "quick" || t == "thorough" {
		tier = t
	}
	c, ok := checks.Registry[id]
	if !ok {
		usage()
	}
	r := ev.New(id, tier, c.Level)
	c.Run(r)
	os.Exit(r.Finish())
}
