package main

import (
	"bytes"
	"fmt"
	"os"
	"os/exec"
	"runtime/pprof"
	"sort"
	"strings"
	"syscall"
	"time"

	"verif/checks"
	"verif/internal/enum"
	"verif/internal/ev"
)

func usage() {
	ids := []string{}
	for id := range checks.Registry {
		ids = append(ids, id)
	}
	sort.Strings(ids)
	fmt.Fprintf(os.Stderr, "usage: vc check <id> [quick|thorough] | vc replay <replay-file>\nchecks: %v\n", ids)
	os.Exit(2)
}

func main() {
	if len(os.Args) >= 2 && os.Args[1] == "dbg17" {
		checks.Debug17()
		return
	}
	if len(os.Args) >= 3 && os.Args[1] == "dbg08" {
		var i int
		fmt.Sscan(os.Args[2], &i)
		checks.Debug08(i)
		return
	}
	if len(os.Args) >= 2 && os.Args[1] == "smoke" {
		checks.Smoke()
		return
	}
	if len(os.Args) >= 2 && os.Args[1] == "race" {
		budget := 120 * time.Second
		if len(os.Args) >= 3 {
			var secs int
			fmt.Sscan(os.Args[2], &secs)
			if secs > 0 {
				budget = time.Duration(secs) * time.Second
			}
		}
		os.Exit(checks.RacePass(budget))
	}
	if len(os.Args) >= 3 && os.Args[1] == "replay" {
		os.Exit(checks.Replay(os.Args[2]))
	}
	if len(os.Args) < 3 || os.Args[1] != "check" {
		usage()
	}
	id := os.Args[2]
	tier := "quick"
	if len(os.Args) > 3 {
		tier = os.Args[3] // an explicit tier on the command line wins
	} else if t := os.Getenv("VERIF_TIER"); t == "quick" || t == "thorough" {
		tier = t
	}
	c, ok := checks.Registry[id]
	if !ok {
		usage()
	}
	r := ev.New(id, tier, c.Level)
	if out := os.Getenv("VERIF_SHARD_OUT"); out != "" {
		// shard child
		runCheck(c, r)
		if err := r.DumpPartial(out); err != nil {
			fmt.Fprintln(os.Stderr, "dump partial:", err)
			os.Exit(3)
		}
		return
	}
	if !c.Sharded || os.Getenv("VERIF_INPROC") != "" {
		runCheck(c, r)
		os.Exit(r.Finish())
	}
	os.Exit(parent(c, r, id, tier))
}

func runCheck(c *checks.Check, r *ev.Rec) {
	if pf := os.Getenv("VERIF_PROF"); pf != "" {
		f, _ := os.Create(fmt.Sprintf("%s.%d", pf, r.Shard))
		pprof.StartCPUProfile(f)
		c.Run(r)
		pprof.StopCPUProfile()
		f.Close()
		return
	}
	c.Run(r)
}

// parent spawns one shard process per core (each single-threaded over its share of every enumeration of the check),
// merges their partial results and finishes. A shard that dies is a harness error unless it printed a Go fatal error
// or panic from the code under test, which is reported as a violation (crash).
func parent(c *checks.Check, r *ev.Rec, id, tier string) int {
	n := enum.Workers()
	dir, err := os.MkdirTemp("", "vc-"+id+"-")
	if err != nil {
		fmt.Fprintln(os.Stderr, err)
		return 2
	}
	defer os.RemoveAll(dir)
	type res struct {
		k      int
		err    error
		stderr string
	}
	ch := make(chan res, n)
	for k := 0; k < n; k++ {
		go func(k int) {
			cmd := exec.Command(os.Args[0], "check", id, tier)
			var eb bytes.Buffer
			cmd.Stderr = &eb
			cmd.Stdout = &eb
			cmd.Env = append(os.Environ(), fmt.Sprintf("VERIF_SHARD=%d", k), fmt.Sprintf("VERIF_NSHARDS=%d", n),
				fmt.Sprintf("VERIF_SHARD_OUT=%s/part-%d.json", dir, k), fmt.Sprintf("VERIF_START_UNIX=%d", time.Now().Unix()), "GOMAXPROCS=2", "GOGC=200")
			// watchdog: a shard that is still running a minute after the internal deadline is hung (deadlock in the code
			// under test or in the harness); it is killed with SIGQUIT so that its goroutine dump lands in stderr
			if err := cmd.Start(); err != nil {
				ch <- res{k, err, ""}
				return
			}
			timer := time.AfterFunc(time.Until(r.Deadline)+90*time.Second, func() { _ = cmd.Process.Signal(syscall.SIGQUIT) })
			err := cmd.Wait()
			timer.Stop()
			ch <- res{k, err, eb.String()}
		}(k)
	}
	bad := 0
	for i := 0; i < n; i++ {
		x := <-ch
		if x.err != nil {
			tail := x.stderr
			if len(tail) > 3000 {
				tail = tail[:1500] + "\n...\n" + tail[len(tail)-1500:]
			}
			if strings.Contains(x.stderr, "SIGQUIT") {
				r.Violation("process-hang", fmt.Sprintf("shard %d was still running 90s after the deadline (deadlock?): %s", x.k, firstLine(x.stderr, "checks.", "karpenter/pkg")), map[string]any{"stderr": tail})
			} else if strings.Contains(x.stderr, "fatal error:") || strings.Contains(x.stderr, "panic:") {
				r.Violation("process-crash", fmt.Sprintf("shard %d crashed: %s", x.k, firstLine(x.stderr, "fatal error:", "panic:")), map[string]any{"stderr": tail})
			} else {
				fmt.Fprintf(os.Stderr, "HARNESS-ERROR: shard %d failed: %v\n%s\n", x.k, x.err, tail)
				bad++
			}
			continue
		}
		if err := r.MergePartial(fmt.Sprintf("%s/part-%d.json", dir, x.k)); err != nil {
			fmt.Fprintf(os.Stderr, "HARNESS-ERROR: merging shard %d: %v\n", x.k, err)
			bad++
		}
	}
	r.Extra["shard_processes"] = n
	if bad > 0 {
		r.Exhaustive = false
		r.Extra["shards_failed"] = bad
		r.Finish()
		return 2
	}
	return r.Finish()
}

func firstLine(s string, markers ...string) string {
	for _, l := range strings.Split(s, "\n") {
		for _, m := range markers {
			if strings.Contains(l, m) {
				return l
			}
		}
	}
	return ""
}
