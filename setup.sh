#!/bin/bash
# Offline setup after a fresh restore: warm the Go build cache by building the checker once against /repo.
set -u
cd "$(dirname "$0")"
export GOFLAGS=-mod=mod GOPROXY=off CGO_ENABLED=0
unset GOTOOLCHAIN GOSUMDB
mkdir -p bin evidence replays
cp -f /repo/go.sum go.sum
go build -tags verif -o bin/vc ./cmd/vc
