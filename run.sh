#!/bin/bash
# Rebuilds the checker from /repo's CURRENT working tree (build tag verif; Go's build cache makes this incremental)
# and runs it.   usage: ./run.sh check <Cnn> [quick|thorough]
set -u
cd "$(dirname "$0")"
export GOFLAGS=-mod=mod GOPROXY=off GODEBUG=randautoseed=0 CGO_ENABLED=0
unset GOTOOLCHAIN GOSUMDB
mkdir -p bin evidence replays
cp -f /repo/go.sum go.sum 2>/dev/null
if [ "${1:-}" = "race" ]; then
  # separate FREE-RUNNING pass under the race detector (not a registered check; see checks/racepass.go, DESIGN §2.6):
  #   ./run.sh race [seconds]   -> exit 0 no race reported, 66 the detector reported one (stderr), 2 build failure
  mkdir -p race
  if ! CGO_ENABLED=1 go build -race -tags verif -o "bin/vc.race.$$" ./cmd/vc 2> "bin/build.$$.log"; then
    echo "HARNESS-ERROR: -race build failed:" >&2; cat "bin/build.$$.log" >&2; rm -f "bin/build.$$.log"; exit 2
  fi
  rm -f "bin/build.$$.log"
  "bin/vc.race.$$" race "${2:-120}" 2> race/last_run.stderr | tee race/last_run.txt
  rc=${PIPESTATUS[0]}
  rm -f "bin/vc.race.$$"
  echo "exit=$rc races_reported=$(grep -c 'WARNING: DATA RACE' race/last_run.stderr)" | tee -a race/last_run.txt
  exit $rc
fi
tmp="bin/vc.$$"
ov=()
if [ -n "${VERIF_OVERLAY:-}" ]; then ov=(-overlay "$VERIF_OVERLAY"); fi
if ! go build -tags verif "${ov[@]}" -o "$tmp" ./cmd/vc 2> "bin/build.$$.log"; then
  echo "HARNESS-ERROR: build of the checker against /repo failed (not a property verdict):" >&2
  cat "bin/build.$$.log" >&2
  rm -f "$tmp" "bin/build.$$.log"
  exit 2
fi
rm -f "bin/build.$$.log"
mv -f "$tmp" "bin/vc.run.$$"
trap 'rm -f "bin/vc.run.$$"' EXIT
"bin/vc.run.$$" "$@"
