#!/bin/bash
# Rebuilds the checker from /repo's CURRENT working tree (build tag verif; Go's build cache makes this incremental)
# and runs it.   usage: ./run.sh check <Cnn> [quick|thorough]
set -u
cd "$(dirname "$0")"
export GOFLAGS=-mod=mod GOPROXY=off GODEBUG=randautoseed=0 CGO_ENABLED=0
unset GOTOOLCHAIN GOSUMDB
mkdir -p bin evidence replays
cp -f /repo/go.sum go.sum 2>/dev/null
tmp="bin/vc.$$"
ov=()
if [ -n "${VERIF_OVERLAY:-}" ]; then ov=(-overlay "$VERIF_OVERLAY"); fi
if ! go build -tags verif "${ov[@]}" -o "$tmp" ./cmd/vc 2> "bin/build.$$.log"; then
  echo "HARNESS-ERROR: build of the checker against /repo failed (not a property verdict):" >&2
  cat "bin/build.$$.log" >&2
  rm -f "$tmp" "bin/build.$$.log"
  exit 2
fi
rm -f "bin/build.$$.log"
mv -f "$tmp" "bin/vc.run.$$"
trap 'rm -f "bin/vc.run.$$"' EXIT
"bin/vc.run.$$" "$@"
