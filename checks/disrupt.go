package checks

import (
	"fmt"
	"sigs.k8s.io/controller-runtime/pkg/client"
	"sort"
	"strings"
	"time"

	corev1 "k8s.io/api/core/v1"
	policyv1 "k8s.io/api/policy/v1"
	metav1 "k8s.io/apimachinery/pkg/apis/meta/v1"
	"k8s.io/apimachinery/pkg/util/intstr"

	v1 "sigs.k8s.io/karpenter/pkg/apis/v1"
	"sigs.k8s.io/karpenter/pkg/controllers/disruption"

	"verif/world"
)

// Disruption worlds: nodes with NodeClaims, pods, PDBs, conditions; the real disruption controller and orchestration
// queue on top of the closed world.

type dPod struct {
	name   string
	cpu    int64
	dnd    string // "", "true", "10m" (expired: start = Epoch-1h), "3h" (active), "nostart" (duration without start time)
	pdb    string // "", "blocked", "two"
	phase  string // "", "succeeded", "terminating"
	daemon bool
	cost   string // pod-deletion-cost annotation
	sel    map[string]string
	mods   []func(*corev1.Pod)
}

type dNode struct {
	name, pool, typ, zone, ct string
	pods                      []dPod
	drifted                   bool
	consolidatable            string // "true" (default), "false", "absent"
	nodeDND                   bool
	stage                     string
	deleting                  bool
	marked                    bool
	nominated                 string // "", "open", "expired", "renominated"
	tgp                       bool
	unmanaged                 bool
	notReady                  bool
	readyUnknown              bool
	terminating               bool // NodeClaim carries InstanceTerminating=True
	labels                    map[string]string
}

type dWorld struct {
	catalog    []world.ITSpec
	pools      []*v1.NodePool
	nodes      []dNode
	pending    []dPod
	spotToSpot bool
	reserved   bool
	// extra API objects (storage classes, claims, CSINodes, ...)
	extra []client.Object
}

type DEnv struct {
	W     *world.World
	Spec  dWorld
	Queue *disruption.Queue
	PIDs  map[string]string // node name -> provider id
	Pods  map[string]*corev1.Pod
}

func (d dPod) build(node string) *corev1.Pod {
	mods := append([]func(*corev1.Pod){}, d.mods...)
	if node != "" {
		mods = append(mods, world.Bound(node))
	}
	cpu := d.cpu
	if cpu == 0 {
		cpu = 500
	}
	p := world.Pod(d.name, cpu, mods...)
	p.Labels = map[string]string{"app": d.name}
	if d.daemon {
		world.OwnedBy("DaemonSet", "ds")(p)
	} else {
		world.OwnedBy("ReplicaSet", "rs-"+d.name)(p)
	}
	if p.Annotations == nil {
		p.Annotations = map[string]string{}
	}
	switch d.dnd {
	case "":
	case "nostart":
		p.Annotations[v1.DoNotDisruptAnnotationKey] = "10m"
		p.Status.StartTime = nil
	default:
		p.Annotations[v1.DoNotDisruptAnnotationKey] = d.dnd
	}
	if d.cost != "" {
		p.Annotations[corev1.PodDeletionCost] = d.cost
	}
	for k, v := range d.sel {
		sel(k, v)(p)
	}
	switch d.phase {
	case "succeeded":
		p.Status.Phase = corev1.PodSucceeded
	case "terminating":
		dt := metaT(world.Epoch.Add(20 * time.Second))
		p.DeletionTimestamp = &dt
		p.Finalizers = []string{"verif.io/terminating"}
	}
	return p
}

func buildDisrupt(dw dWorld) *DEnv {
	w := world.New(world.Options{SpotToSpot: dw.spotToSpot, ReservedCapacity: dw.reserved, CPURequests: 1000})
	w.CP.Catalog[""] = world.BuildCatalog(dw.catalog)
	w.Add(world.NodeClass())
	for _, np := range dw.pools {
		w.Add(np.DeepCopy())
	}
	env := &DEnv{W: w, Spec: dw, PIDs: map[string]string{}, Pods: map[string]*corev1.Pod{}}
	for _, n := range dw.nodes {
		t := pickType(dw.catalog, n.typ)
		var of world.OfSpec
		for _, o := range t.Offers {
			if o.Zone == n.zone && o.CT == n.ct {
				of = o
			}
		}
		if of.Zone == "" {
			panic(fmt.Sprintf("no offering %s/%s/%s in catalog", n.typ, n.zone, n.ct))
		}
		spec := world.NodeSpec{Name: n.name, Pool: n.pool, Type: t, Offer: of, Stage: n.stage, Deleting: n.deleting, NotReady: n.notReady, ReadyUnknown: n.readyUnknown, Labels: n.labels, Created: world.Epoch.Add(-3 * time.Hour)}
		if n.unmanaged {
			spec.Pool = ""
		}
		if n.tgp {
			spec.TGP = dur(5 * time.Minute)
		}
		if n.nodeDND {
			spec.Annot = map[string]string{v1.DoNotDisruptAnnotationKey: "true"}
		}
		nc, node := w.BuildNode(spec)
		env.PIDs[n.name] = node.Spec.ProviderID
		if nc != nil {
			switch n.consolidatable {
			case "", "true":
				nc.StatusConditions().SetTrue(v1.ConditionTypeConsolidatable)
			case "false":
				nc.StatusConditions().SetFalse(v1.ConditionTypeConsolidatable, "NotYet", "pods changed recently")
			}
			if n.drifted {
				nc.StatusConditions().SetTrueWithReason(v1.ConditionTypeDrifted, "NodePoolDrifted", "NodePoolDrifted")
			}
			if n.terminating {
				nc.StatusConditions().SetTrue(v1.ConditionTypeInstanceTerminating)
			}
			for i := range nc.Status.Conditions {
				nc.Status.Conditions[i].LastTransitionTime = metaT(world.Epoch.Add(-2 * time.Hour))
			}
			nc.Status.LastPodEventTime = metaT(world.Epoch.Add(-2 * time.Hour))
			w.EnvUpdate(nc)
		}
		for _, dp := range n.pods {
			p := dp.build(n.name)
			w.Add(p)
			env.Pods[dp.name] = p
			k := 0
			switch dp.pdb {
			case "blocked":
				k = 1
			case "two", "two-allowing":
				k = 2
			}
			allowed := int32(0)
			if dp.pdb == "two-allowing" {
				allowed = 1
			}
			for i := 0; i < k; i++ {
				mu := intstr.FromInt32(allowed)
				w.Add(&policyv1.PodDisruptionBudget{ObjectMeta: metav1.ObjectMeta{Name: fmt.Sprintf("pdb-%s-%d", dp.name, i), Namespace: "default"},
					Spec:   policyv1.PodDisruptionBudgetSpec{Selector: &metav1.LabelSelector{MatchLabels: map[string]string{"app": dp.name}}, MaxUnavailable: &mu},
					Status: policyv1.PodDisruptionBudgetStatus{DisruptionsAllowed: allowed}})
			}
		}
	}
	for _, dp := range dw.pending {
		p := dp.build("")
		w.Add(p)
		env.Pods[dp.name] = p
	}
	for _, o := range dw.extra {
		w.Add(o.DeepCopyObject().(client.Object))
	}
	w.SyncCluster()
	for _, n := range dw.nodes {
		pid := env.PIDs[n.name]
		if n.marked {
			w.Cluster.MarkForDeletion(pid)
		}
		switch n.nominated {
		case "open":
			w.Cluster.NominateNodeForPod(w.Ctx, pid)
		case "expired":
			w.Cluster.NominateNodeForPod(w.Ctx, pid)
			w.Clock.Step(30 * time.Second)
		case "renominated":
			// nominated by one scheduling pass, nominated AGAIN by a later pass inside the first window, and looked at
			// after the first window would have closed but before the second one does (window = 20 s)
			w.Cluster.NominateNodeForPod(w.Ctx, pid)
			w.Clock.Step(15 * time.Second)
			w.Cluster.NominateNodeForPod(w.Ctx, pid)
			w.Clock.Step(10 * time.Second)
		}
	}
	env.Queue = disruption.NewQueue(w.Client, w.Rec, w.Cluster, w.Clock, w.Prov)
	return env
}

func (env *DEnv) methods(names ...string) []disruption.Method {
	w := env.W
	c := disruption.MakeConsolidation(w.Clock, w.Cluster, w.Client, w.Prov, w.CP, w.Rec, env.Queue)
	var out []disruption.Method
	for _, n := range names {
		switch n {
		case "Emptiness":
			out = append(out, disruption.NewEmptiness(c))
		case "StaticDrift":
			out = append(out, disruption.NewStaticDrift(w.Cluster, w.Prov, w.CP))
		case "Drift":
			out = append(out, disruption.NewDrift(w.Client, w.Cluster, w.Prov, w.Rec, w.Clock))
		case "MultiNodeConsolidation":
			out = append(out, disruption.NewMultiNodeConsolidation(c))
		case "SingleNodeConsolidation":
			out = append(out, disruption.NewSingleNodeConsolidation(c))
		}
	}
	return out
}

var allMethods = []string{"Emptiness", "StaticDrift", "Drift", "MultiNodeConsolidation", "SingleNodeConsolidation"}

// round runs one disruption reconcile restricted to the given methods and returns the commands that are new in the queue.
func (env *DEnv) round(methods ...string) ([]*disruption.Command, error) {
	w := env.W
	before := map[*disruption.Command]bool{}
	for _, c := range env.Queue.GetCommands() {
		before[c] = true
	}
	ctrl := disruption.NewController(w.Clock, w.Client, w.Prov, w.CP, w.Rec, w.Cluster, env.Queue, w.Cost, disruption.WithMethods(env.methods(methods...)...))
	_, err := ctrl.Reconcile(w.Ctx)
	var out []*disruption.Command
	for _, c := range env.Queue.GetCommands() {
		if !before[c] {
			out = append(out, c)
		}
	}
	sort.Slice(out, func(i, j int) bool { return cmdString(out[i]) < cmdString(out[j]) })
	return out, err
}

func cmdCandidates(c *disruption.Command) []string {
	var out []string
	for _, cn := range c.Candidates {
		out = append(out, cn.Name())
	}
	sort.Strings(out)
	return out
}

func cmdString(c *disruption.Command) string {
	var repl []string
	for _, r := range c.Replacements {
		its := make([]string, 0)
		for _, it := range r.NodeClaim.InstanceTypeOptions {
			its = append(its, it.Name)
		}
		sort.Strings(its)
		repl = append(repl, "["+strings.Join(its, ",")+"]")
	}
	return fmt.Sprintf("%s %s candidates=%v replacements=%v", c.Reason(), c.Decision(), cmdCandidates(c), repl)
}

type disruptionCommand = disruption.Command
