package checks

import (
	"fmt"
	apierrors "k8s.io/apimachinery/pkg/api/errors"
	"k8s.io/apimachinery/pkg/runtime/schema"
	"strings"
	"time"

	"k8s.io/apimachinery/pkg/types"
	"sigs.k8s.io/controller-runtime/pkg/client"

	v1 "sigs.k8s.io/karpenter/pkg/apis/v1"
	"sigs.k8s.io/karpenter/pkg/controllers/nodeclaim/lifecycle"
	"sigs.k8s.io/karpenter/pkg/controllers/nodepool/registrationhealth"
	"sigs.k8s.io/karpenter/pkg/state/nodepoolhealth"
	"verif/world"

	"verif/internal/enum"
	"verif/internal/ev"
)

// C20 — explicit-state exploration of the real nodepoolhealth.State against a "list of the last four outcomes".
//
// Alphabet: Update(true), Update(false), SetStatus(Healthy), SetStatus(Unhealthy), SetStatus(Unknown). The SetStatus
// operations are what restart hydration (registrationhealth controller) and NodePool spec changes do.
// Oracle (ring4): window = last <=4 outcomes since the last reset; SetStatus(Healthy) := [T]; SetStatus(Unhealthy) :=
// [F,F]; SetStatus(Unknown) := []. Status = Unknown iff window empty; Unhealthy iff #F >= 2; else Healthy.
// In every reached state: Status() == ring4, and for x in {T,F}: DryRun(x).Status() == ring4(window+x).

var c20Ops = []string{"U(T)", "U(F)", "Set(Healthy)", "Set(Unhealthy)", "Set(Unknown)"}

type ring4 struct {
	w       []bool
	inserts int // inserts since last reset (storage layout is a function of (w, inserts mod 4))
}

func (m *ring4) apply(op int) {
	switch op {
	case 0, 1:
		m.w = append(m.w, op == 0)
		if len(m.w) > 4 {
			m.w = m.w[1:]
		}
		m.inserts++
	case 2:
		m.w, m.inserts = []bool{true}, 1
	case 3:
		m.w, m.inserts = []bool{false, false}, 2
	case 4:
		m.w, m.inserts = nil, 0
	}
}

func ringStatus(w []bool) nodepoolhealth.Status {
	if len(w) == 0 {
		return nodepoolhealth.StatusUnknown
	}
	f := 0
	for _, b := range w {
		if !b {
			f++
		}
	}
	if f*2 >= 4 {
		return nodepoolhealth.StatusUnhealthy
	}
	return nodepoolhealth.StatusHealthy
}

func withNext(w []bool, x bool) []bool {
	n := append(append([]bool{}, w...), x)
	if len(n) > 4 {
		n = n[1:]
	}
	return n
}

func wstr(w []bool) string {
	var sb strings.Builder
	for _, b := range w {
		if b {
			sb.WriteByte('T')
		} else {
			sb.WriteByte('F')
		}
	}
	return sb.String()
}

func applyReal(s *nodepoolhealth.State, uid types.UID, op int) {
	switch op {
	case 0:
		s.Update(uid, true)
	case 1:
		s.Update(uid, false)
	case 2:
		s.SetStatus(uid, nodepoolhealth.StatusHealthy)
	case 3:
		s.SetStatus(uid, nodepoolhealth.StatusUnhealthy)
	case 4:
		s.SetStatus(uid, nodepoolhealth.StatusUnknown)
	}
}

func c20Seq(digits []int) []string {
	out := make([]string, len(digits))
	for i, d := range digits {
		out[i] = c20Ops[d]
	}
	return out
}

func init() {
	register("C20", "model_checking", func(r *ev.Rec) {
		depth := 9
		if r.Tier == "thorough" {
			depth = 11
		}
		r.Rule = fmt.Sprintf("every operation sequence of length <=%d over {Update(T),Update(F),SetStatus(Healthy|Unhealthy|Unknown)} on the real "+
			"nodepoolhealth.State, no state merging; a state is checked the first time its prefix is reached; distinct_nontrivial = distinct "+
			"(window contents, inserts mod 4) abstract states with a non-empty window reached; states = same incl. the empty window", depth)
		r.Assumptions = []string{"single NodePool UID (trackers are independent per UID)", "controller-level part runs in the same check (see coverage.controller_level)"}
		dims := make([]int, depth)
		for i := range dims {
			dims[i] = 5
		}
		n := enum.Size(dims...)
		pow := make([]int64, depth+1)
		pow[0] = 1
		for i := 1; i <= depth; i++ {
			pow[i] = pow[i-1] * 5
		}
		const uid = types.UID("np-1")
		enum.Run(r, n, func(i int64, l *ev.Local) {
			d := enum.Odo(i, dims...)
			s := nodepoolhealth.NewState()
			m := &ring4{}
			for k := 0; k < depth; k++ {
				applyReal(s, uid, d[k])
				m.apply(d[k])
				// first visit of prefix d[:k+1] iff the remaining digits are all zero
				if i%pow[depth-k-1] != 0 {
					continue
				}
				l.Transitions++
				l.Eval()
				key := fmt.Sprintf("%s/%d", wstr(m.w), m.inserts%4)
				if len(m.w) > 0 {
					l.Nontrivial(key)
				}
				l.Outcome(key)
				if got, want := s.Status(uid), ringStatus(m.w); got != want {
					l.Violation("status-mismatch", fmt.Sprintf("after %v: Status()=%d, last-four rule says %d (window %s)", c20Seq(d[:k+1]), got, want, wstr(m.w)),
						map[string]any{"ops": c20Seq(d[:k+1])})
				}
				for _, x := range []bool{true, false} {
					got, want := s.DryRun(uid, x).Status(), ringStatus(withNext(m.w, x))
					if got != want {
						wrapped := m.inserts > 4 && m.inserts%4 != 0
						sig := fmt.Sprintf("dryrun-disagrees-with-record wrapped=%v", wrapped)
						l.Violation(sig, fmt.Sprintf("after %v (window %s, oldest first): DryRun(%v).Status()=%d but recording %v yields %d", c20Seq(d[:k+1]), wstr(m.w), x, got, x, want),
							map[string]any{"ops": c20Seq(d[:k+1]), "next": x})
					}
				}
				// differential: what-if vs. really recording, on the real object (only along the path where the next op records x)
				if k+1 < depth && d[k+1] <= 1 && i%pow[depth-k-2] == 0 {
					x := d[k+1] == 0
					pre := s.DryRun(uid, x).Status()
					s2 := nodepoolhealth.NewState()
					for j := 0; j <= k; j++ {
						applyReal(s2, uid, d[j])
					}
					s2.Update(uid, x)
					if post := s2.Status(uid); pre != post {
						l.Violation(fmt.Sprintf("dryrun-differs-from-real-update wrapped=%v", m.inserts > 4 && m.inserts%4 != 0),
							fmt.Sprintf("after %v: DryRun(%v)=%d, real Update(%v) then Status()=%d", c20Seq(d[:k+1]), x, pre, x, post), map[string]any{"ops": c20Seq(d[:k+1]), "next": x})
					}
				}
			}
			if i == n/3 {
				l.Sample(map[string]any{"ops": c20Seq(d), "final_window": wstr(m.w), "status": int(s.Status(uid))})
			}
			l.Traces++
		})
		r.StatesFromOutcomes()
		r.Extra["depth"] = depth
		r.Extra["sequences"] = n
		c20Controller(r)
	})
}

// c20Controller: sequences of registration successes and registration timeouts through the real lifecycle controller
// (and a restart with hydration by the real registrationhealth controller); after every outcome the NodePool's
// NodeRegistrationHealthy condition must be what the statement says.
func c20Controller(r *ev.Rec) {
	all := []string{"success", "failure", "restart", "nodeclass-change", "nodepool-change", "failure+conflict-on-nodepool-patch", "success+conflict-on-nodepool-patch"}
	outcomes := []string{"success", "failure", "failure+conflict-on-nodepool-patch", "success+conflict-on-nodepool-patch"}
	// every history over the full alphabet up to one depth, and (longer: the window holds four attempts) every history of
	// attempts only, with and without a conflicting NodePool write
	dAll, dOutcomes := 5, 7
	if r.Tier == "thorough" {
		dAll, dOutcomes = 6, 9
	}
	r.Extra["controller_level_depth"] = fmt.Sprintf("%d over %d operations, %d over the %d attempt outcomes", dAll, len(all), dOutcomes, len(outcomes))
	c20ControllerRun(r, all, dAll)
	c20ControllerRun(r, outcomes, dOutcomes)
}

func c20ControllerRun(r *ev.Rec, ops []string, depth int) {
	dims := make([]int, depth)
	for i := range dims {
		dims[i] = len(ops)
	}
	enum.Run(r, enum.Size(dims...), func(idx int64, l *ev.Local) {
		d := enum.Odo(idx, dims...)
		w := world.New(world.Options{})
		w.CP.Catalog[""] = world.BuildCatalog(K1)
		np := world.NodePool("default")
		w.Add(world.NodeClass(), np)
		state := nodepoolhealth.NewState()
		ctrl := lifecycle.NewController(w.Clock, w.Client, w.CP, w.Rec, state, nil)
		health := registrationhealth.NewController(w.Clock, w.Client, w.CP, state)
		var window, windowLost []bool
		expect, expectLost := "Unknown", "Unknown"
		var hist []string
		{ // controller start-up: every NodePool is reconciled once (observed generations in sync, condition Unknown)
			cur := &v1.NodePool{}
			must(w.Raw.Get(w.Ctx, client.ObjectKey{Name: "default"}, cur))
			_, _ = health.Reconcile(w.Ctx, cur)
		}
		for k, op := range d {
			hist = append(hist, ops[op])
			name := fmt.Sprintf("n%d", k)
			switch ops[op] {
			case "restart":
				// all in-memory state is lost; the registrationhealth controller re-hydrates the tracker from the condition
				state = nodepoolhealth.NewState()
				ctrl = lifecycle.NewController(w.Clock, w.Client, w.CP, w.Rec, state, nil)
				health = registrationhealth.NewController(w.Clock, w.Client, w.CP, state)
				cur := &v1.NodePool{}
				must(w.Raw.Get(w.Ctx, client.ObjectKey{Name: "default"}, cur))
				_, _ = health.Reconcile(w.Ctx, cur)
				switch expect {
				case "True":
					window = []bool{true}
				case "False":
					window = []bool{false, false}
				default:
					window = nil
				}
				switch expectLost {
				case "True":
					windowLost = []bool{true}
				case "False":
					windowLost = []bool{false, false}
				default:
					windowLost = nil
				}
			case "nodeclass-change", "nodepool-change":
				// a spec change of the NodePool or its NodeClass resets the health signal: condition Unknown, window empty
				if ops[op] == "nodeclass-change" {
					nc := world.NodeClass()
					must(w.Raw.Get(w.Ctx, client.ObjectKeyFromObject(nc), nc))
					nc.Generation++
					w.EnvUpdate(nc)
				} else {
					cur := &v1.NodePool{}
					must(w.Raw.Get(w.Ctx, client.ObjectKey{Name: "default"}, cur))
					cur.Generation++
					w.EnvUpdate(cur)
				}
				cur := &v1.NodePool{}
				must(w.Raw.Get(w.Ctx, client.ObjectKey{Name: "default"}, cur))
				_, _ = health.Reconcile(w.Ctx, cur)
				window, expect = nil, "Unknown"
				windowLost, expectLost = nil, "Unknown"
			case "success", "failure", "failure+conflict-on-nodepool-patch", "success+conflict-on-nodepool-patch":
				conflict := strings.HasSuffix(ops[op], "+conflict-on-nodepool-patch")
				if conflict {
					// an attempt like any other for the reference: ONE attempt failed / succeeded, however often its write is retried
					op = map[string]int{"failure+conflict-on-nodepool-patch": 1, "success+conflict-on-nodepool-patch": 0}[ops[op]]
				}
				since := w.Clock.Now()
				if ops[op] == "failure" {
					since = since.Add(-16 * time.Minute)
				}
				nc, _ := w.BuildNode(world.NodeSpec{Name: name, Pool: "default", Type: K1[0], Offer: K1[0].Offers[0], Stage: "claim-only", Created: since})
				t := true
				nc.OwnerReferences = append(nc.OwnerReferences, metaOwner("NodePool", np.Name, string(np.UID), &t))
				w.EnvUpdate(nc)
				if ops[op] == "success" {
					w.KubeletRegister(nc, world.RegisterOpts{})
				}
				if conflict {
					// the NodePool status write of this reconcile (if it makes one) meets an optimistic-lock conflict; the
					// controller retries
					fired := false
					w.Client.Hook = func(c *world.Call) error {
						if !fired && c.Verb == "status-patch" && c.Kind == "NodePool" {
							fired = true
							return apierrors.NewConflict(schema.GroupResource{Resource: "nodepools"}, "default", fmt.Errorf("injected conflict"))
						}
						return nil
					}
					_, _ = ctrl.Reconcile(w.Ctx, w.GetNodeClaim(nc.Name))
					w.Client.Hook = nil
					if cur := w.GetNodeClaim(nc.Name); cur != nil && cur.DeletionTimestamp == nil {
						_, _ = ctrl.Reconcile(w.Ctx, cur)
					}
				} else {
					_, _ = ctrl.Reconcile(w.Ctx, w.GetNodeClaim(nc.Name))
				}
				window = withNext(window, ops[op] == "success")
				f := 0
				for _, b := range window {
					if !b {
						f++
					}
				}
				if ops[op] == "failure" && f >= 2 {
					expect = "False"
				}
				if ops[op] == "success" && f < 2 {
					expect = "True"
				}
				// second reference, used only to NAME a violation: the same rule when a success whose NodePool write met a
				// conflict is dropped altogether
				if !(conflict && ops[op] == "success") {
					windowLost = withNext(windowLost, ops[op] == "success")
					fl := 0
					for _, b := range windowLost {
						if !b {
							fl++
						}
					}
					if ops[op] == "failure" && fl >= 2 {
						expectLost = "False"
					}
					if ops[op] == "success" && fl < 2 {
						expectLost = "True"
					}
				}
			}
			cur := &v1.NodePool{}
			must(w.Raw.Get(w.Ctx, client.ObjectKey{Name: "default"}, cur))
			got := string(cur.StatusConditions().Get(v1.ConditionTypeNodeRegistrationHealthy).Status)
			l.Eval()
			if int64(k) == int64(len(d))-1 {
				l.Traces++
			}
			if got != expect {
				sig := "controller: NodeRegistrationHealthy does not follow the last-four rule"
				if got == expectLost {
					sig = "controller: a successful registration whose NodePool status write met a conflict is never counted"
				}
				l.Violation(sig, fmt.Sprintf("after %v (window %s): condition is %s, the statement requires %s", hist, wstr(window), got, expect), map[string]any{"history": hist})
				return
			}
		}
		l.NontrivialH(ev.H("ctrl/" + strings.Join(hist, ",")))
		if idx == 100 {
			l.Sample(map[string]any{"controller_level_history": hist, "window": wstr(window), "condition": expect})
		}
	})
}
