package checks

import (
	"fmt"
	"sort"
	"strings"

	appsv1 "k8s.io/api/apps/v1"
	corev1 "k8s.io/api/core/v1"
	metav1 "k8s.io/apimachinery/pkg/apis/meta/v1"

	v1 "sigs.k8s.io/karpenter/pkg/apis/v1"
	"sigs.k8s.io/karpenter/pkg/cloudprovider"

	"verif/oracle"
	"verif/world"
)

func (env *SchedEnv) original(name string) *corev1.Pod {
	for _, p := range env.Pending {
		if p.Name == name {
			return p
		}
	}
	for _, p := range env.Bound {
		if p.Name == name {
			return p
		}
	}
	return nil
}

func dsPod(d *appsv1.DaemonSet) *corev1.Pod {
	return &corev1.Pod{ObjectMeta: metav1.ObjectMeta{Name: "ds-" + d.Name, Namespace: d.Namespace}, Spec: *d.Spec.Template.Spec.DeepCopy()}
}

// expectedDaemons: daemonset pods that would run on a node with these labels/taints and are not running there yet.
func (env *SchedEnv) expectedDaemons(labels map[string]string, taints []corev1.Taint, already []*corev1.Pod) []*corev1.Pod {
	var out []*corev1.Pod
	for _, d := range env.DS {
		running := false
		for _, q := range already {
			for _, o := range q.OwnerReferences {
				if o.Kind == "DaemonSet" && o.Name == d.Name {
					running = true
				}
			}
		}
		if running {
			continue
		}
		p := dsPod(d)
		if ok, _ := oracle.MatchesNodeSelection(p, labels); !ok {
			continue
		}
		tol := true
		for _, t := range taints {
			if (t.Effect == corev1.TaintEffectNoSchedule || t.Effect == corev1.TaintEffectNoExecute) && !oracle.Tolerates(p, t) {
				tol = false
			}
		}
		if tol {
			out = append(out, p)
		}
	}
	return out
}

func (env *SchedEnv) nodeSpec(name string) *world.NodeSpec {
	for i := range env.Nodes {
		if env.Nodes[i].Name == name || "nc-"+env.Nodes[i].Name == name {
			return &env.Nodes[i]
		}
	}
	return nil
}

// existingView builds what kube-scheduler would see of an existing / in-flight node, from the harness's own spec.
func (env *SchedEnv) existingView(ns *world.NodeSpec, assigned []*corev1.Pod, except string) oracle.NodeView {
	labels := world.LaunchLabels(ns.Type, ns.Offer)
	for k, v := range ns.Labels {
		labels[k] = v
	}
	labels[corev1.LabelHostname] = ns.Name
	if ns.Pool != "" {
		labels[v1.NodePoolLabelKey] = ns.Pool
		labels[v1.NodeRegisteredLabelKey] = "true"
		labels[v1.NodeInitializedLabelKey] = "true" // the labels the node will carry once it is up
	}
	taints := append(append([]corev1.Taint{}, ns.Taints...), ns.NodeOnly...)
	stage := ns.Stage
	if stage == "" {
		stage = "initialized"
	}
	if ns.Pool != "" && stage != "initialized" {
		if stage != "claim-only" {
			taints = append(taints, ns.Startup...)
		}
		taints = oracle.EffectiveTaints(taints, true, ns.Startup)
	}
	view := oracle.NodeView{Name: ns.Name, Labels: labels, Taints: taints, AllocCPUm: ns.Type.AllocCPUm(ns.Offer), AllocMem: ns.Type.AllocMem(),
		AllocPods: int64(ns.Type.Pods), AllocExt: map[string]int64{}, PodVolumes: env.Volumes}
	for k, n := range ns.Type.Ext {
		view.AllocExt[k] = int64(n)
	}
	var there []*corev1.Pod
	for _, b := range env.Bound {
		if b.Spec.NodeName == ns.Name && b.Status.Phase != corev1.PodSucceeded && b.Status.Phase != corev1.PodFailed {
			there = append(there, b)
		}
	}
	for _, a := range assigned {
		if a.Name != except {
			there = append(there, a)
		}
	}
	// expected daemons count for resources only: the statement includes daemonset overhead in the summed requests, it
	// does not promise that a not-yet-running daemon's host port is kept free on an existing node
	for _, d := range env.expectedDaemons(labels, taints, there) {
		d = d.DeepCopy()
		for i := range d.Spec.Containers {
			d.Spec.Containers[i].Ports = nil
		}
		there = append(there, d)
	}
	view.Pods = there
	return view
}

type c01Violation struct {
	Sig, Msg string
}

// judgePlacements applies the k8sadmit oracle to every placement of one pass.
func (env *SchedEnv) judgePlacements(out schedOutcome) (viol []c01Violation, placements int) {
	for _, en := range out.Results.ExistingNodes {
		if len(en.Pods) == 0 {
			continue
		}
		ns := env.nodeSpec(en.Name())
		if ns == nil {
			viol = append(viol, c01Violation{"existing-node-unknown", "placement on a node the world does not contain: " + en.Name()})
			continue
		}
		if ns.Deleting {
			viol = append(viol, c01Violation{"placement-on-deleting-node", fmt.Sprintf("pods %s placed on deleting node %s", podNames(en.Pods), ns.Name)})
		}
		var assigned []*corev1.Pod
		for _, p := range en.Pods {
			if o := env.original(p.Name); o != nil {
				assigned = append(assigned, o)
			}
		}
		for _, p := range assigned {
			placements++
			view := env.existingView(ns, assigned, p.Name)
			if why := oracle.Admit(p, view); len(why) > 0 {
				viol = append(viol, c01Violation{"existing-node: " + reasonClass(why), fmt.Sprintf("pod %s placed on existing node %s (%s) is inadmissible: %s", p.Name, ns.Name, nodeCfgs[env.Case.Nodes].name, strings.Join(why, "; "))})
			}
		}
	}
	for j, snc := range out.Results.NewNodeClaims {
		if j >= len(out.Created) || out.Created[j] == nil {
			continue
		}
		nc := out.Created[j]
		var pods []*corev1.Pod
		for _, p := range snc.Pods {
			if o := env.original(p.Name); o != nil {
				pods = append(pods, o)
			}
		}
		placements += len(pods)
		viol = append(viol, env.judgeNewNodeClaim(nc, pods)...)
	}
	return viol, placements
}

func reasonClass(why []string) string {
	cls := map[string]bool{}
	for _, w := range why {
		switch {
		case strings.HasPrefix(w, "nodeSelector"), strings.HasPrefix(w, "no original required"), strings.HasPrefix(w, "required node affinity"):
			cls["node-selection"] = true
		case strings.HasPrefix(w, "taint"):
			cls["taint"] = true
		case strings.HasPrefix(w, "host port"):
			cls["host-port"] = true
		case strings.HasPrefix(w, "volume"):
			cls["volume-zone"] = true
		case strings.HasPrefix(w, "CSI"):
			cls["volume-limit"] = true
		default:
			cls["resources"] = true
		}
	}
	var out []string
	for c := range cls {
		out = append(out, c)
	}
	sort.Strings(out)
	return strings.Join(out, "+")
}

func reqValues(reqs []v1.NodeSelectorRequirementWithMinValues, key string) ([]string, bool) {
	for _, r := range reqs {
		if r.Key == key && r.Operator == corev1.NodeSelectorOpIn {
			return r.Values, true
		}
	}
	return nil, false
}

// launchesFor enumerates the launches (type, offering) the NodeClaim request permits, by the harness's own rules.
func (env *SchedEnv) launchesFor(nc *v1.NodeClaim) (out []struct {
	T world.ITSpec
	O world.OfSpec
	L map[string]string
}) {
	for _, t := range env.Catalog {
		for _, o := range t.Offers {
			if !o.Available {
				continue
			}
			L := world.LaunchLabels(t, o)
			for k, v := range nc.Labels {
				if _, ok := L[k]; !ok {
					L[k] = v
				}
			}
			ok := true
			for _, key := range oracle.Keys(nc.Spec.Requirements) {
				if key == corev1.LabelHostname {
					continue
				}
				val, present := L[key]
				if !present && (v1.WellKnownLabels.Has(key) && key != world.FamKey && key != world.GenKey && key != cloudprovider.ReservationIDLabel) {
					// a well-known label this catalog does not define (region, windows-build): unconstrained
					continue
				}
				if !oracle.SatAll(nc.Spec.Requirements, key, present, val) {
					ok = false
					break
				}
			}
			if ok {
				out = append(out, struct {
					T world.ITSpec
					O world.OfSpec
					L map[string]string
				}{t, o, L})
			}
		}
	}
	return out
}

func (env *SchedEnv) judgeNewNodeClaim(nc *v1.NodeClaim, pods []*corev1.Pod) (viol []c01Violation) {
	launches := env.launchesFor(nc)
	if len(launches) == 0 {
		// nothing can be launched for this request, so no launch can be infeasible; counted, not a violation
		env.NoLaunch++
		return nil
	}
	taints := nc.Spec.Taints // startup taints are exempt by design
	fitsSomewhere := map[string]bool{}
	types := map[string]bool{}
	for _, l := range launches {
		types[l.T.Name] = true
		view := oracle.NodeView{Name: nc.Name, Labels: l.L, Taints: taints, AllocCPUm: l.T.AllocCPUm(l.O), AllocMem: l.T.AllocMem(), AllocPods: int64(l.T.Pods),
			AllocExt: map[string]int64{}, PodVolumes: env.Volumes}
		for k, n := range l.T.Ext {
			view.AllocExt[k] = int64(n)
		}
		daemons := env.expectedDaemons(l.L, taints, nil)
		allFit := true
		for _, p := range pods {
			var others []*corev1.Pod
			for _, q := range pods {
				if q.Name != p.Name {
					others = append(others, q)
				}
			}
			view.Pods = append(others, daemons...)
			why := oracle.Admit(p, view)
			var hard []string
			for _, r := range why {
				if reasonClass([]string{r}) == "resources" {
					allFit = false
				} else {
					hard = append(hard, r)
				}
			}
			if len(hard) > 0 {
				viol = append(viol, c01Violation{"new-nodeclaim: " + reasonClass(hard), fmt.Sprintf("pod %s on NodeClaim %s launched as %s/%s/%s is inadmissible: %s (request: %s)", p.Name, nc.Name, l.T.Name, l.O.Zone, l.O.CT, strings.Join(hard, "; "), reqsCanon(nc.Spec.Requirements))})
			}
		}
		if allFit {
			fitsSomewhere[l.T.Name] = true
		}
	}
	for t := range types {
		if !fitsSomewhere[t] {
			viol = append(viol, c01Violation{"new-nodeclaim: resources", fmt.Sprintf("NodeClaim %s may be launched as %s but pods %s plus daemon overhead fit no compatible offering of it (request: %s)", nc.Name, t, podNames(pods), reqsCanon(nc.Spec.Requirements))})
		}
	}
	return viol
}
