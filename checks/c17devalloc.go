package checks

import (
	"fmt"
	"sort"
	"strings"

	resourcev1 "k8s.io/api/resource/v1"
	"k8s.io/apimachinery/pkg/api/resource"
	"k8s.io/apimachinery/pkg/types"
	"sigs.k8s.io/controller-runtime/pkg/reconcile"

	"sigs.k8s.io/karpenter/pkg/controllers/dynamicresources/deviceallocation"
	"sigs.k8s.io/karpenter/pkg/test"

	"verif/internal/enum"
	"verif/internal/ev"
	"verif/world"
)

// C17, device-allocation tracker — what the scheduler believes about devices that are already allocated comes from the
// deviceallocation controller, which maintains it INCREMENTALLY from ResourceClaim events (which pods reserve a device,
// whether it could be released with them, how much of a shared device each claim consumes). Whatever the history of a
// claim, once its latest version has been reconciled the tracker has to say exactly what a freshly started controller
// hydrated from the API says; otherwise a device still in use is handed out again (or capacity is given back twice).
//
// All operation sequences up to a depth over 2 claims x {exclusive device d0, d1, shared device s0} are applied to the
// API; after every operation the claim is reconciled by the real controller at once, or the delivery is deferred to the
// end of the sequence (coalesced events).

type daOp struct {
	name string
	do   func(c *resourcev1.ResourceClaim) (*resourcev1.ResourceClaim, bool) // returns nil => delete; false => not applicable
}

func daAlloc(pool, dev string, capGi int64) func(c *resourcev1.ResourceClaim) (*resourcev1.ResourceClaim, bool) {
	return func(c *resourcev1.ResourceClaim) (*resourcev1.ResourceClaim, bool) {
		r := resourcev1.DeviceRequestAllocationResult{Request: "req", Driver: test.GPUDriver, Pool: pool, Device: dev}
		if capGi > 0 {
			r.ConsumedCapacity = map[resourcev1.QualifiedName]resource.Quantity{test.CapacityMemory: resource.MustParse(fmt.Sprintf("%dGi", capGi))}
		}
		if c.Status.Allocation != nil && len(c.Status.Allocation.Devices.Results) == 1 {
			old := c.Status.Allocation.Devices.Results[0]
			oq, nq := old.ConsumedCapacity[test.CapacityMemory], r.ConsumedCapacity[test.CapacityMemory]
			if old.Pool == pool && old.Device == dev && oq.Cmp(nq) == 0 {
				return c, false
			}
		}
		c.Status.Allocation = &resourcev1.AllocationResult{Devices: resourcev1.DeviceAllocationResult{Results: []resourcev1.DeviceRequestAllocationResult{r}}}
		return c, true
	}
}

func daConsumer(name string, pod, add bool) func(c *resourcev1.ResourceClaim) (*resourcev1.ResourceClaim, bool) {
	return func(c *resourcev1.ResourceClaim) (*resourcev1.ResourceClaim, bool) {
		if c.Status.Allocation == nil {
			return c, false
		}
		ref := resourcev1.ResourceClaimConsumerReference{Resource: "pods", Name: name, UID: types.UID("uid-" + name)}
		if !pod {
			ref = resourcev1.ResourceClaimConsumerReference{APIGroup: "example.com", Resource: "widgets", Name: name, UID: types.UID("uid-" + name)}
		}
		idx := -1
		for i, r := range c.Status.ReservedFor {
			if r.UID == ref.UID {
				idx = i
			}
		}
		switch {
		case add && idx < 0:
			c.Status.ReservedFor = append(c.Status.ReservedFor, ref)
		case !add && idx >= 0:
			c.Status.ReservedFor = append(c.Status.ReservedFor[:idx:idx], c.Status.ReservedFor[idx+1:]...)
		default:
			return c, false
		}
		return c, true
	}
}

var daOps = []daOp{
	{"allocate d0", daAlloc("cw", "d0", 0)},
	{"allocate d1", daAlloc("cw", "d1", 0)},
	{"allocate 10Gi of s0", daAlloc("shared", "s0", 10)},
	{"allocate 20Gi of s0", daAlloc("shared", "s0", 20)},
	{"reserve for pod a", daConsumer("a", true, true)},
	{"reserve for pod b", daConsumer("b", true, true)},
	{"pod a gone", daConsumer("a", true, false)},
	{"pod b gone", daConsumer("b", true, false)},
	{"reserve for a non-pod consumer", daConsumer("w", false, true)},
	{"non-pod consumer gone", daConsumer("w", false, false)},
	{"deallocate", func(c *resourcev1.ResourceClaim) (*resourcev1.ResourceClaim, bool) {
		if c.Status.Allocation == nil {
			return c, false
		}
		c.Status.Allocation, c.Status.ReservedFor = nil, nil
		return c, true
	}},
	{"delete", func(c *resourcev1.ResourceClaim) (*resourcev1.ResourceClaim, bool) { return nil, true }},
}

func daDigest(w *world.World, c *deviceallocation.Controller) []string {
	it, err := c.AllocatedDevices(w.Ctx)
	if err != nil {
		return []string{"error: " + err.Error()}
	}
	uids := func(in []types.UID) string {
		s := make([]string, len(in))
		for i, u := range in {
			s[i] = string(u)
		}
		sort.Strings(s)
		return strings.Join(s, ",")
	}
	caps := func(m map[resourcev1.QualifiedName]resource.Quantity) string {
		var s []string
		for k, v := range m {
			s = append(s, fmt.Sprintf("%s=%d", k, v.Value()))
		}
		sort.Strings(s)
		return strings.Join(s, ",")
	}
	var out []string
	for id, m := range it {
		var contrib []string
		for _, cm := range m.Contributions {
			contrib = append(contrib, "{"+uids(cm.PodUIDs)+" "+caps(cm.ConsumedCapacity)+"}")
		}
		sort.Strings(contrib)
		out = append(out, fmt.Sprintf("%s/%s: releasable=%v pods=[%s] shared=%v consumed=[%s] contributions=%v", id.Pool.Value(), id.Device.Value(), m.Releasable, uids(m.PodUIDs), m.Shared, caps(m.ConsumedCapacity), contrib))
	}
	sort.Strings(out)
	return out
}

func c17DeviceTracker(r *ev.Rec) {
	depth := 4
	if r.Tier == "thorough" {
		depth = 5
	}
	claims := []string{"c1", "c2"}
	alphabet := len(claims) * len(daOps)
	// sequences of exactly k operations, k = 1..depth, x {every operation reconciled at once, all deliveries deferred to the end}
	var total int64
	sizes := make([]int64, depth+1)
	for k := 1; k <= depth; k++ {
		sizes[k] = 1
		for j := 0; j < k; j++ {
			sizes[k] *= int64(alphabet)
		}
		total += sizes[k] * 2
	}
	r.Extra["device_tracker_sequences"] = total
	enum.Run(r, total, func(idx int64, l *ev.Local) {
		k := 1
		i := idx
		for i >= sizes[k]*2 {
			i -= sizes[k] * 2
			k++
		}
		deferred := i%2 == 1
		i /= 2
		dims := make([]int, k)
		for j := range dims {
			dims[j] = alphabet
		}
		seq := enum.Odo(i, dims...)
		w := world.New(world.Options{DRA: true})
		w.Add(test.DeviceClassWithSelector("gpu", test.GPUDriver))
		ctrl := deviceallocation.NewController(w.Client)
		ctrl.Hydrate(w.Ctx)
		w.Client.Quiet++
		defer func() { w.Client.Quiet-- }()
		var hist []string
		dirty := map[string]bool{}
		for _, o := range seq {
			cn, op := claims[o/len(daOps)], daOps[o%len(daOps)]
			cur := &resourcev1.ResourceClaim{}
			exists := w.Raw.Get(w.Ctx, clientKey("default", cn), cur) == nil
			if !exists {
				if op.name == "delete" {
					return // not applicable: prune (the same history without this step is enumerated on its own)
				}
				cur = test.ResourceClaim(resourcev1.ResourceClaim{})
				cur.Name, cur.Namespace, cur.UID = cn, "default", types.UID("uid-"+cn)
				cur.Spec.Devices.Requests = []resourcev1.DeviceRequest{test.ExactDeviceRequest("req", "gpu", 1)}
			}
			next, ok := op.do(cur)
			if !ok {
				return
			}
			switch {
			case next == nil:
				w.EnvDelete(cur)
			case exists:
				w.EnvUpdate(next)
			default:
				w.Add(next)
			}
			hist = append(hist, cn+": "+op.name)
			if deferred {
				dirty[cn] = true
			} else {
				_, _ = ctrl.Reconcile(w.Ctx, reconcile.Request{NamespacedName: clientKey("default", cn)})
			}
		}
		for _, cn := range claims {
			if dirty[cn] {
				_, _ = ctrl.Reconcile(w.Ctx, reconcile.Request{NamespacedName: clientKey("default", cn)})
			}
		}
		l.Eval()
		got := daDigest(w, ctrl)
		fresh := deviceallocation.NewController(w.Client)
		fresh.Hydrate(w.Ctx)
		want := daDigest(w, fresh)
		l.NontrivialH(ev.H(strings.Join(want, "|")))
		l.Outcome(fmt.Sprintf("tracker: devices-tracked=%d", len(want)))
		if strings.Join(got, "\n") != strings.Join(want, "\n") {
			what := "pods"
			for _, f := range []string{"releasable", "shared", "consumed", "contributions"} {
				if fieldOf(got, f) != fieldOf(want, f) {
					what = f
				}
			}
			if len(got) != len(want) {
				what = "device set"
			}
			l.Violation("dra: the device-allocation tracker differs from a freshly hydrated one: "+what,
				fmt.Sprintf("after %v (%s) the deviceallocation controller reports %v; a controller started now and hydrated from the same claims reports %v: the allocator is seeded with the former", hist, map[bool]string{false: "every step reconciled at once", true: "deliveries coalesced at the end"}[deferred], got, want),
				map[string]any{"history": hist, "deferred": deferred, "tracker": got, "fresh": want})
		}
		if idx%9973 == 11 {
			l.Sample(map[string]any{"tracker_history": hist, "deferred": deferred, "tracked": want})
		}
	})
}

// fieldOf extracts "<field>=..." of every line of a tracker digest (to name what differs).
func fieldOf(lines []string, field string) string {
	var out []string
	for _, l := range lines {
		if i := strings.Index(l, field+"="); i >= 0 {
			rest := l[i:]
			if j := strings.Index(rest, "] "); j >= 0 {
				rest = rest[:j+1]
			} else if j := strings.Index(rest, " "); j >= 0 && field != "contributions" {
				rest = rest[:j]
			}
			out = append(out, rest)
		}
	}
	return strings.Join(out, ";")
}
