package checks

import (
	"fmt"
	"os"
	"time"

	"sigs.k8s.io/karpenter/pkg/operator/options"

	"verif/internal/ev"
	"verif/internal/explore"
)

// RacePass — the separate, FREE-RUNNING pass for the race detector (`./run.sh race`, binary built with -race). The
// explorations decide the properties under a cooperative scheduler, whose hand-offs are happens-before edges and
// therefore blind a race detector; unsynchronized accesses below the scheduling points are looked for here, by running
// the same harness bodies with real goroutines: provisioning passes with the real ParallelizeUntil (H1 hooks off, 4
// workers), disruption rounds (client-go fan-out in the taint / condition writes), and the static-capacity protocol of
// C03 with its threads as free goroutines. This pass SAMPLES schedules; it decides no property and is not a registered
// check. The detector's reports go to stderr and make the process exit 66.
func RacePass(budget time.Duration) int {
	deadline := time.Now().Add(budget)
	var passes, rounds, protos int
	// (1) provisioning passes, a stride through the C01 product
	sp := c01Space("quick")
	n := sp.size()
	for i := int64(0); i < n && time.Now().Before(deadline.Add(-budget*2/3)); i += 211 {
		c := sp.decode(i)
		if sp.skip != nil && sp.skip(c) {
			continue
		}
		c.Workers = 4
		env := buildSched(c)
		_ = env.runPass(nil, 4)
		passes++
	}
	// (2) disruption rounds with every method on small clusters (the controller fans taint / condition writes out)
	for i := 0; time.Now().Before(deadline.Add(-budget / 3)); i++ {
		cc := c07Case{v: make([]int, len(c07Factors)), contents: []string{"empty", "one-pod"}[i%2], drifted: i%4 >= 2}
		env := buildDisrupt(cc.world())
		_, _ = env.round(allMethods...)
		for _, cmd := range env.Queue.GetCommands() {
			if obj := env.W.GetNodeClaim(cmd.Candidates[0].NodeClaim.Name); obj != nil {
				_, _ = env.Queue.Reconcile(env.W.Ctx, obj)
			}
		}
		rounds++
	}
	// (3) the static-capacity protocol with free-running threads
	c03Free = true
	defer func() { c03Free = false }()
	r := ev.New("C03race", "quick", "model_checking")
	r.Deadline = deadline
	os.Setenv("VERIF_INPROC", "1")
	func() {
		defer func() {
			if p := recover(); p != nil {
				fmt.Println("race pass: protocol part panicked:", p)
			}
		}()
		for time.Now().Before(deadline) {
			c03ProtocolOnce(r)
			protos++
		}
	}()
	fmt.Printf("race pass: %d provisioning passes (4 real workers), %d disruption rounds, %d sweeps of the %d protocol scenarios with free-running threads; violations recorded by the protocol oracle: %v\n",
		passes, rounds, protos, r.Extra["protocol_scenarios"], r.ViolationSigs())
	_ = options.PreferencePolicyRespect
	_ = explore.Replay
	return 0
}
