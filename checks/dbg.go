package checks

import (
	"sigs.k8s.io/karpenter/pkg/controllers/disruption"
	"verif/internal/explore"
	"fmt"
	"os"
	"strings"

	"verif/internal/ev"
)

func Debug17() {
	seen := map[string]string{}
	c03Debug = func(sc string, choices []int, trace []string) {
		k := sc + fmt.Sprint(choices)
		t := strings.Join(trace, " | ")
		if old, ok := seen[k]; ok && old != t {
			fmt.Println("DIVERGENCE", k)
			fmt.Println("  A:", old)
			fmt.Println("  B:", t)
			os.Exit(1)
		}
		seen[k] = t
	}
	for i := 0; i < 5; i++ {
		r := ev.New("C03dbg", "quick", "model_checking")
		func() {
			defer func() {
				if p := recover(); p != nil {
					fmt.Println("panic:", p)
				}
			}()
			c03Protocol(r)
		}()
		fmt.Println("pass", i, len(seen))
	}
}

// Debug08 explores one C08 scenario at bound 2 and prints the context of a replay divergence.
func Debug08(idx int) {
	sc := c08Scenarios[idx]
	var last *explore.Run
	var lastHist []string
	ex := &explore.Explorer{Bound: 2}
	ex.Exec = func(run *explore.Run) {
		last = run
		x := &c08Run{env: buildDisrupt(sc.world()), sc: sc, deletedBy: map[string]string{}, deletedByCmd: map[string]*disruption.Command{}, everInit: map[string]bool{}}
		defer func() {
			if p := recover(); p != nil {
				if _, ok := p.(explore.Diverged); ok && len(run.Plan()) > 0 {
					panic(p)
				}
				fmt.Println("panic:", p)
				fmt.Println("choices so far:", run.Choices())
				for i, pt := range run.Trace {
					fmt.Printf("  %d %s n=%d chosen=%d\n", i, pt.Kind, pt.N, pt.Chosen)
				}
				fmt.Println("history:", x.history)
				for _, c := range callStrings(x.env.W) {
					fmt.Println("  call:", c)
				}
				os.Exit(1)
			}
		}()
		x.run(run, 24, !sc.fanout)
		lastHist = x.history
	}
	ex.Explore()
	_ = last
	fmt.Println("execs", ex.Execs, "diverged", ex.Diverged, "invalid", ex.Invalid, "last history", lastHist)
}
