package checks

import (
	"fmt"

	"sigs.k8s.io/karpenter/pkg/operator/options"
	"verif/internal/explore"
)

func Debug17() {
	poolCfgs, podShapes, catalogs = c17Pools, c17Shapes, c17Catalogs
	c := SchedCase{Batch: []int{1, 2}, Catalog: "K3", Pool: 0, Nodes: 0, Pref: options.PreferencePolicyRespect, MinV: options.MinValuesPolicyStrict, Workers: 2, Reserved: true}
	env := buildSched(c)
	out := env.runPass(explore.Replay(nil), 2)
	fmt.Println(out.Err, out.Digest)
}
