package checks

import (
	"fmt"

	"verif/internal/explore"
	"verif/world"
)

func Debug17() {
	for _, sc := range termScenarios[:1] {
		t := buildTerm(sc)
		t.run(explore.Replay(nil), 30, func(c *world.Call) bool { return true }, c09After)
		fmt.Println(sc.name, t.history)
		for _, c := range t.w.Client.Log {
			fmt.Println("   ", c.String())
		}
		fmt.Println(t.w.GetNode("n1") != nil, t.w.GetNodeClaim(t.nc.Name) != nil, t.viol)
		dbgHook(t)
	}
}

func init() {
	dbgHook = func(t *termRun) {
		for n := range t.pods {
			p := t.livePod(n)
			if p == nil {
				fmt.Println("pod", n, "gone")
				continue
			}
			fmt.Println("pod", n, p.DeletionTimestamp, p.Status.Phase, p.Spec.NodeName)
		}
		for _, e := range t.envEvents() {
			fmt.Println("env:", e.name)
		}
	}
}
