package checks

import (
	"fmt"
	"os"
	"strings"

	"verif/internal/ev"
)

func Debug17() {
	seen := map[string]string{}
	c03Debug = func(sc string, choices []int, trace []string) {
		k := sc + fmt.Sprint(choices)
		t := strings.Join(trace, " | ")
		if old, ok := seen[k]; ok && old != t {
			fmt.Println("DIVERGENCE", k)
			fmt.Println("  A:", old)
			fmt.Println("  B:", t)
			os.Exit(1)
		}
		seen[k] = t
	}
	for i := 0; i < 5; i++ {
		r := ev.New("C03dbg", "quick", "model_checking")
		func() {
			defer func() {
				if p := recover(); p != nil {
					fmt.Println("panic:", p)
				}
			}()
			c03Protocol(r)
		}()
		fmt.Println("pass", i, len(seen))
	}
}
