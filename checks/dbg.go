package checks

import "fmt"

func Debug17() {
	c := c07Case{v: make([]int, len(c07Factors)), contents: "one-pod"}
	env := buildDisrupt(c.world())
	cmds, err := env.round("SingleNodeConsolidation")
	fmt.Println(cmdStrings(cmds), err)
	for _, e := range env.W.Rec.Events {
		fmt.Println("  event:", e.Reason, e.Message)
	}
	for _, cl := range env.W.Client.Log {
		fmt.Println("   ", cl.String())
	}
}
