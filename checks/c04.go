package checks

import (
	"fmt"
	"strings"
	"time"

	corev1 "k8s.io/api/core/v1"
	"k8s.io/apimachinery/pkg/types"

	v1 "sigs.k8s.io/karpenter/pkg/apis/v1"
	"sigs.k8s.io/karpenter/pkg/controllers/nodeclaim/lifecycle"
	"sigs.k8s.io/karpenter/pkg/controllers/provisioning"
	"sigs.k8s.io/karpenter/pkg/controllers/state"
	"sigs.k8s.io/karpenter/pkg/operator/options"
	"sigs.k8s.io/karpenter/pkg/state/nodepoolhealth"

	"verif/internal/enum"
	"verif/internal/ev"
	"verif/internal/explore"
	"verif/oracle"
	"verif/world"
)

// C04 — new capacity is opened only when existing / in-flight capacity cannot admit the pod.

var c04Stages = []string{"launched", "node-unregistered", "node-unregistered-no-hostname-zero-ext", "node-unregistered-explicit-zero-ext", "registered", "registered-explicit-zero-ext", "initialized"}

// provisionerReconcile runs the real Provisioner.Reconcile (batcher, Synced gate, Schedule, CreateNodeClaims) to
// completion, stepping the scenario clock for the batcher's timers. Returns the calls it made.
func provisionerReconcile(w *world.World, uid string) []world.Call {
	before := len(w.Client.Log)
	w.Prov.Trigger(types.UID("trigger-" + uid))
	done := make(chan struct{})
	go func() {
		defer close(done)
		_, _ = w.Prov.Reconcile(w.Ctx)
	}()
	for i := 0; i < 2000; i++ {
		select {
		case <-done:
			return append([]world.Call{}, w.Client.Log[before:]...)
		default:
		}
		if w.Clock.PendingTimers() > 0 {
			w.Clock.Step(time.Second)
		}
		time.Sleep(50 * time.Microsecond)
	}
	<-done
	return append([]world.Call{}, w.Client.Log[before:]...)
}

// advance drives one created NodeClaim to a lifecycle stage with the real lifecycle controller and kubelet events,
// launching it as the pick-th permitted launch.
func advance(w *world.World, ctrl *lifecycle.Controller, name, stage string, pick int) (launch string, ok bool) {
	w.CP.Pick = func(nc *v1.NodeClaim, permitted []world.Launch) int {
		if pick < len(permitted) {
			return pick
		}
		return 0
	}
	rec := func() { _, _ = ctrl.Reconcile(w.Ctx, w.GetNodeClaim(name)) }
	rec()
	nc := w.GetNodeClaim(name)
	if nc == nil || nc.Status.ProviderID == "" {
		return "", false
	}
	inst := w.CP.Instance(nc.Status.ProviderID)
	launch = inst.Launch.String()
	if stage == "launched" {
		return launch, true
	}
	w.KubeletRegister(nc, world.RegisterOpts{NotReadyTaint: true, ZeroExt: strings.Contains(stage, "zero-ext") && !strings.Contains(stage, "explicit"), ExplicitZeroExt: strings.Contains(stage, "explicit-zero-ext"), OmitHostname: strings.Contains(stage, "no-hostname")})
	if strings.HasPrefix(stage, "node-unregistered") {
		return launch, true
	}
	rec()
	if strings.HasPrefix(stage, "registered") {
		return launch, true
	}
	nodeName := "node-" + name
	w.KubeletReady(nodeName)
	w.RemoveStartupTaints(nodeName, nc)
	w.ReportExtended(nodeName, nc)
	rec()
	return launch, true
}

func init() {
	register("C04", "exploration", func(r *ev.Rec) {
		shapes := []string{"small", "medium", "large", "zone-a-selector", "fam-x", "tolerates-dedicated", "hostport-8080", "on-demand-selector", "gpu", "gen-gt-1-lt-3", "zone-b-selector-large"}
		pools := []int{0, 1, 4, 6, 8} // open, zone-a, taint-noschedule, startup-taint, cpu-limit-6
		cats := []string{"K1", "K4"}
		maxLaunch := 3
		if r.Tier == "thorough" {
			maxLaunch = 8
			cats = []string{"K1", "K2", "K4"}
		}
		var bl [][]int
		for _, b := range batches(len(shapes), 2) {
			m := make([]int, len(b))
			for i, x := range b {
				m[i] = shapeIdx(shapes[x])
			}
			bl = append(bl, m)
		}
		dss := []int{0, 1}
		r.Rule = fmt.Sprintf("catalogs %v x %d NodePool configs x {no daemonset, one daemonset} x all batches of <=2 of %d preference-free shapes: pass 1 (real Provisioner.Reconcile incl. batcher and Synced gate) creates NodeClaims; while they are unlaunched a second Reconcile must do no scheduling; then for EVERY permitted launch of each NodeClaim (up to %d cheapest-first per claim) and every lifecycle stage %v reached through the real lifecycle controller and kubelet events, pass 2 runs with the pods still pending. "+
			"Oracle: a pod placed on a NEW NodeClaim in pass 2 must be inadmissible (kube-scheduler filters, launched type's allocatable) on every in-flight node together with everything assigned there. non-trivial = distinct (case, launch choice, stage) with an in-flight node and pending pods", cats, len(pools), len(shapes), maxLaunch, c04Stages)
		r.Assumptions = []string{"pods without inter-pod constraints or preferences", "limits may legitimately force a later pass (cpu-limit pool): only unjustified NEW NodeClaims are flagged"}
		n := enum.Size(len(bl), len(cats), len(pools), len(dss))
		enum.Run(r, n, func(idx int64, l *ev.Local) {
			d := enum.Odo(idx, len(bl), len(cats), len(pools), len(dss))
			c := SchedCase{Batch: bl[d[0]], Catalog: cats[d[1]], Pool: pools[d[2]], Nodes: 0, DS: dss[d[3]], Pref: options.PreferencePolicyRespect, MinV: options.MinValuesPolicyStrict, Workers: 1}
			// discover how many NodeClaims and launches there are
			probe := buildSched(c)
			out := probe.runPass(explore.Replay(nil), 1)
			if out.Err != nil || len(out.Created) == 0 {
				l.Outcome("pass1-created-nothing")
				return
			}
			var launches []int
			for _, nc := range out.Created {
				if nc == nil {
					return
				}
				k := len(probe.W.CP.Permitted(nc))
				if k > maxLaunch {
					k = maxLaunch
				}
				if k == 0 {
					return
				}
				launches = append(launches, k)
			}
			dims := append([]int{len(c04Stages)}, launches...)
			for combo := int64(0); combo < enum.Size(dims...); combo++ {
				cd := enum.Odo(combo, dims...)
				stage := c04Stages[cd[0]]
				env := buildSched(c)
				w := env.W
				// ---- pass 1 through the real Reconcile
				calls := provisionerReconcile(w, "p1")
				created := 0
				for _, cl := range calls {
					if cl.Verb == "create" && cl.Kind == "NodeClaim" && cl.Err == "" {
						created++
					}
				}
				if created != len(out.Created) {
					l.Outcome("pass1-differs-between-runs")
					continue
				}
				// ---- (1) unlaunched NodeClaims gate the next pass
				calls = provisionerReconcile(w, "p1b")
				for _, cl := range calls {
					if (cl.Verb == "list" && cl.Kind == "Pod") || cl.Verb == "create" {
						l.Violation("scheduling pass ran while a created NodeClaim was unlaunched", fmt.Sprintf("second Provisioner.Reconcile made call %q although %d NodeClaims are not launched yet  [%s]", cl.String(), created, c.String()), map[string]any{"case": c})
						break
					}
				}
				// ---- (1b) ... also right after a controller restart (fresh cluster cache hydrated from the API)
				if cd[0] == 0 && combo == 0 {
					w.Cluster = state.NewCluster(w.Clock, w.Client, w.CP)
					w.Prov = provisioning.NewProvisioner(w.Client, w.Rec, w.CP, w.Cluster, w.Clock, w.DeviceAlloc, w.VPods)
					w.RebindInformers()
					w.SyncCluster()
					calls = provisionerReconcile(w, "p1c")
					for _, cl := range calls {
						if (cl.Verb == "list" && cl.Kind == "Pod") || cl.Verb == "create" {
							l.Violation("scheduling pass ran while a created NodeClaim was unlaunched (after a restart)", fmt.Sprintf("the first Provisioner.Reconcile after a controller restart made call %q although %d NodeClaims are not launched yet  [%s]", cl.String(), created, c.String()), map[string]any{"case": c})
							break
						}
					}
				}
				// ---- launch choice x stage
				ctrl := lifecycle.NewController(w.Clock, w.Client, w.CP, w.Rec, nodepoolhealth.NewState(), nil)
				ncs := &v1.NodeClaimList{}
				must(w.Raw.List(w.Ctx, ncs))
				var desc []string
				okAll := true
				for j := range ncs.Items {
					launch, ok := advance(w, ctrl, ncs.Items[j].Name, stage, cd[1+j%len(launches)])
					okAll = okAll && ok
					desc = append(desc, ncs.Items[j].Name+"="+launch)
				}
				if !okAll {
					l.Outcome("launch-failed")
					continue
				}
				w.SyncCluster()
				w.Client.Log = nil
				out2 := env.runPass(explore.Replay(nil), 1)
				l.Eval()
				if out2.Err != nil {
					l.Outcome("pass2-error")
					continue
				}
				l.NontrivialH(ev.H(fmt.Sprintf("%d/%d", idx, combo)))
				l.Outcome(fmt.Sprintf("stage=%s pass2-new-nodeclaims=%d", stage, len(out2.Results.NewNodeClaims)))
				// ---- (2) every pod on a NEW NodeClaim must be inadmissible on every in-flight node
				assigned := map[string][]*corev1.Pod{}
				for _, en := range out2.Results.ExistingNodes {
					for _, p := range en.Pods {
						if o := env.original(p.Name); o != nil {
							assigned[en.ProviderID()] = append(assigned[en.ProviderID()], o)
						}
					}
				}
				for _, snc := range out2.Results.NewNodeClaims {
					for _, p := range snc.Pods {
						orig := env.original(p.Name)
						if orig == nil {
							continue
						}
						for _, inst := range w.CP.Live() {
							nc := w.GetNodeClaim(inst.NodeClaim.Name)
							if nc == nil || nc.DeletionTimestamp != nil {
								continue
							}
							view := env.inflightView(inst, nc, stage, assigned[inst.ProviderID])
							if why := oracle.Admit(orig, view); len(why) == 0 {
								l.Violation("new NodeClaim opened although an in-flight node can admit the pod: stage="+stage, fmt.Sprintf("pass 2 placed pod %s on a NEW NodeClaim although in-flight NodeClaim %s (launched as %s, stage %s, already assigned %s) admits it  [%s launches=%v]", p.Name, nc.Name, inst.Launch.String(), stage, podNames(assigned[inst.ProviderID]), c.String(), desc),
									map[string]any{"case": c, "stage": stage, "launches": desc, "pass2": out2.Digest})
							}
						}
					}
				}
				pv, _ := env.judgePlacementsInflight(out2, stage)
				for _, v := range pv {
					l.Violation(v.Sig, v.Msg+"  ["+c.String()+fmt.Sprintf(" stage=%s launches=%v]", stage, desc), map[string]any{"case": c, "stage": stage, "launches": desc})
				}
				if idx%211 == 5 && combo == 1 {
					l.Sample(map[string]any{"case": c.String(), "stage": stage, "launches": desc, "pass2": out2.Digest})
				}
			}
		})
		c04BoundMidPass(r, shapes, cats, pools)
	})
}

// c04BoundMidPass — (3) kube-scheduler binds the pending pod to its own, by now registered / initialized, node WHILE the
// next pass is running: right before or right after any one API / provider call of Provisioner.Schedule. Whenever the
// binding lands, the pass must not open a second NodeClaim for that pod (the node snapshot is taken before the pending
// pods are listed, so the pod is either no longer pending or not yet counted on its node).
func c04BoundMidPass(r *ev.Rec, shapes, cats []string, pools []int) {
	stages := []string{"registered", "initialized"}
	n := enum.Size(len(shapes), len(cats), len(pools), len(stages))
	enum.Run(r, n, func(idx int64, l *ev.Local) {
		d := enum.Odo(idx, len(shapes), len(cats), len(pools), len(stages))
		c := SchedCase{Batch: []int{shapeIdx(shapes[d[0]])}, Catalog: cats[d[1]], Pool: pools[d[2]], Nodes: 0, DS: 0, Pref: options.PreferencePolicyRespect, MinV: options.MinValuesPolicyStrict, Workers: 1}
		stage := stages[d[3]]
		ex := &explore.Explorer{Bound: 1, MaxExecs: 5000, Stop: r.Expired}
		ex.Exec = func(run *explore.Run) {
			env := buildSched(c)
			w := env.W
			out := env.runPass(explore.Replay(nil), 1)
			if out.Err != nil || len(out.Created) != 1 || out.Created[0] == nil {
				l.Outcome("bound-mid-pass: pass1-created-no-single-nodeclaim")
				return
			}
			ctrl := lifecycle.NewController(w.Clock, w.Client, w.CP, w.Rec, nodepoolhealth.NewState(), nil)
			if _, ok := advance(w, ctrl, out.Created[0].Name, stage, 0); !ok {
				l.Outcome("bound-mid-pass: launch-failed")
				return
			}
			w.SyncCluster()
			nc := w.GetNodeClaim(out.Created[0].Name)
			if nc == nil || nc.Status.NodeName == "" || len(env.Pending) != 1 {
				l.Outcome("bound-mid-pass: no-node")
				return
			}
			w.Client.Log = nil
			fired := ""
			w.AttachInterleaveOpt(run, []string{"pod-bound-to-its-node"}, func(name, at string) bool {
				p := &corev1.Pod{}
				if err := w.Raw.Get(w.Ctx, clientKey(env.Pending[0].Namespace, env.Pending[0].Name), p); err != nil || p.Spec.NodeName != "" {
					return false
				}
				world.Bound(nc.Status.NodeName)(p)
				w.EnvUpdate(p)
				w.SyncCluster()
				fired = at
				return true
			}, true)
			out2 := env.runPass(run, 1)
			w.Client.Sched, w.Client.SchedAfter = nil, nil
			l.Eval()
			l.Traces++
			if out2.Err != nil {
				l.Outcome("bound-mid-pass: pass-error")
				return
			}
			l.NontrivialH(ev.H(fmt.Sprintf("bmp/%d/%s", idx, fired)))
			if fired == "" {
				// the pod stayed pending: it must go to its in-flight node unless the oracle of part (2) says it cannot
				l.Outcome(fmt.Sprintf("bound-mid-pass: no event, new-nodeclaims=%d", len(out2.Results.NewNodeClaims)))
				return
			}
			l.Outcome(fmt.Sprintf("bound-mid-pass: stage=%s new-nodeclaims=%d", stage, len(out2.Results.NewNodeClaims)))
			if len(out2.Results.NewNodeClaims) > 0 {
				l.Violation("new NodeClaim opened for a pod that was bound to its own node while the pass was running: stage="+stage,
					fmt.Sprintf("pod %s was bound to node %s (the node of the NodeClaim the previous pass created for it, stage %s) %s during the pass; the pass still opened %d new NodeClaim(s): %s  [%s]", env.Pending[0].Name, nc.Status.NodeName, stage, fired, len(out2.Results.NewNodeClaims), out2.Digest, c.String()),
					map[string]any{"case": c, "stage": stage, "event_at": fired, "plan": run.Plan()})
			}
		}
		ex.Explore()
		noteDiverged(l, ex, "bound-mid-pass")
		l.Transitions += int64(ex.Points)
	})
}

// inflightView: what kube-scheduler will see of the node of an in-flight NodeClaim once it is up, using the
// allocatable of the type it was actually launched as.
func (env *SchedEnv) inflightView(inst *world.Instance, nc *v1.NodeClaim, stage string, assigned []*corev1.Pod) oracle.NodeView {
	t := pickType(env.Catalog, inst.Launch.Type.Name)
	var of world.OfSpec
	for _, o := range t.Offers {
		if o.Zone == world.OfferingZone(inst.Launch.Offering) && o.CT == world.OfferingCT(inst.Launch.Offering) {
			of = o
		}
	}
	labels := world.LaunchLabels(t, of)
	for k, v := range nc.Labels {
		labels[k] = v
	}
	labels[corev1.LabelHostname] = "node-" + nc.Name
	labels[v1.NodeRegisteredLabelKey] = "true"
	labels[v1.NodeInitializedLabelKey] = "true"
	view := oracle.NodeView{Name: nc.Name, Labels: labels, Taints: nc.Spec.Taints, AllocCPUm: t.AllocCPUm(of), AllocMem: t.AllocMem(), AllocPods: int64(t.Pods), AllocExt: map[string]int64{}, PodVolumes: env.Volumes}
	for k, n := range t.Ext {
		view.AllocExt[k] = int64(n)
	}
	there := append([]*corev1.Pod{}, assigned...)
	for _, d := range env.expectedDaemons(labels, nc.Spec.Taints, there) {
		d = d.DeepCopy()
		for i := range d.Spec.Containers {
			d.Spec.Containers[i].Ports = nil
		}
		there = append(there, d)
	}
	view.Pods = there
	return view
}

// judgePlacementsInflight applies the C01 admission oracle to pass-2 placements on in-flight nodes.
func (env *SchedEnv) judgePlacementsInflight(out schedOutcome, stage string) (viol []c01Violation, n int) {
	w := env.W
	for _, en := range out.Results.ExistingNodes {
		if len(en.Pods) == 0 {
			continue
		}
		inst := w.CP.Instance(en.ProviderID())
		if inst == nil {
			continue
		}
		nc := w.GetNodeClaim(inst.NodeClaim.Name)
		if nc == nil {
			continue
		}
		var assigned []*corev1.Pod
		for _, p := range en.Pods {
			if o := env.original(p.Name); o != nil {
				assigned = append(assigned, o)
			}
		}
		for _, p := range assigned {
			n++
			var others []*corev1.Pod
			for _, q := range assigned {
				if q.Name != p.Name {
					others = append(others, q)
				}
			}
			view := env.inflightView(inst, nc, stage, others)
			if why := oracle.Admit(p, view); len(why) > 0 {
				viol = append(viol, c01Violation{"in-flight node: " + reasonClass(why), fmt.Sprintf("pod %s placed on in-flight NodeClaim %s (launched as %s) is inadmissible: %s", p.Name, nc.Name, inst.Launch.String(), strings.Join(why, "; "))})
			}
		}
	}
	return viol, n
}
