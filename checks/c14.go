package checks

import (
	"os"
	"fmt"
	metav1 "k8s.io/apimachinery/pkg/apis/meta/v1"
	"strings"
	"time"

	corev1 "k8s.io/api/core/v1"
	"sigs.k8s.io/controller-runtime/pkg/client"

	v1 "sigs.k8s.io/karpenter/pkg/apis/v1"
	"sigs.k8s.io/karpenter/pkg/controllers/nodeclaim/lifecycle"
	"sigs.k8s.io/karpenter/pkg/operator/options"
	"sigs.k8s.io/karpenter/pkg/state/nodepoolhealth"

	"verif/internal/enum"
	"verif/internal/ev"
	"verif/internal/explore"
	"verif/world"
)

// C14 — one instance per NodeClaim; Launched -> Registered -> Initialized only in order and only on their preconditions.

type lcScenario struct {
	name    string
	pool    int // index into poolCfgs
	catalog string
	shape   string
	// foreign: an unrelated, Ready Node WITHOUT a provider id exists in the cluster (a node some other system registered)
	foreign bool
}

var lcScenarios = []lcScenario{
	{"plain", 0, "K1", "small", false},
	{"startup-taint", 6, "K1", "small", false},
	{"extended-resource", 0, "K4", "gpu", false},
	{"template-taint+zone", 4, "K2", "tolerates-dedicated", false},
	{"plain+foreign-node-without-provider-id", 0, "K1", "small", true},
}

type lcObserver struct {
	w           *world.World
	creates     map[string]int // successful provider creates per NodeClaim name
	iceAt       []int          // log seq of capacity errors
	prev        map[string]bool
	viol        []c01Violation
	restarted   bool
	regressed   []string
	transitions []string
}

func condTrue(nc *v1.NodeClaim, t string) bool { return nc.StatusConditions().Get(t).IsTrue() }

func (o *lcObserver) after(c *world.Call) {
	w := o.w
	switch {
	case c.Verb == "cp-create" && c.Err == "":
		o.creates[c.Name]++
		if cur := w.GetNodeClaim(c.Name); cur == nil || !containsStr(cur.Finalizers, v1.TerminationFinalizer) {
			o.viol = append(o.viol, c01Violation{"launch before the termination finalizer is on the NodeClaim", fmt.Sprintf("provider Create for %s while the API object has finalizers %v", c.Name, finalizersOf(cur))})
		}
		if o.creates[c.Name] > 1 && !o.restarted {
			o.viol = append(o.viol, c01Violation{"second successful provider Create for the same NodeClaim", fmt.Sprintf("NodeClaim %s: %d successful Create calls without a controller restart", c.Name, o.creates[c.Name])})
		}
	case (c.Verb == "status-patch" || c.Verb == "status-update" || c.Verb == "patch" || c.Verb == "update") && c.Kind == "NodeClaim" && (c.Err == "" || c.AppliedButFailed()):
		cur := w.GetNodeClaim(c.Name)
		if cur == nil {
			return
		}
		now := map[string]bool{"Launched": condTrue(cur, v1.ConditionTypeLaunched), "Registered": condTrue(cur, v1.ConditionTypeRegistered), "Initialized": condTrue(cur, v1.ConditionTypeInitialized)}
		for k, was := range o.prev {
			if was && !now[k] {
				// not part of the statement (it constrains when conditions BECOME true); reported as an outcome only
				o.regressed = append(o.regressed, k)
			}
		}
		node := o.nodeFor(cur)
		if now["Launched"] && !o.prev["Launched"] {
			o.transitions = append(o.transitions, "Launched")
			if cur.Status.ProviderID == "" || w.CP.Instance(cur.Status.ProviderID) == nil {
				o.viol = append(o.viol, c01Violation{"Launched=True without an instance", fmt.Sprintf("NodeClaim %s Launched with providerID %q that the provider does not know", cur.Name, cur.Status.ProviderID)})
			}
		}
		if now["Registered"] && !o.prev["Registered"] {
			o.transitions = append(o.transitions, "Registered")
			var why []string
			if !now["Launched"] {
				why = append(why, "Launched is not True")
			}
			if node == nil {
				why = append(why, "no Node with the NodeClaim's provider id exists")
			} else {
				if node.Labels[v1.NodeRegisteredLabelKey] != "true" {
					why = append(why, "Node lacks the registered label")
				}
				for _, t := range node.Spec.Taints {
					if t.Key == v1.UnregisteredTaintKey {
						why = append(why, "Node still carries the unregistered taint")
					}
				}
				if !containsStr(node.Finalizers, v1.TerminationFinalizer) {
					why = append(why, "Node lacks the termination finalizer")
				}
				for k, val := range cur.Labels {
					if node.Labels[k] != val {
						why = append(why, fmt.Sprintf("label %s not synced to the Node", k))
					}
				}
				for _, t := range cur.Spec.Taints {
					found := false
					for _, nt := range node.Spec.Taints {
						if nt.Key == t.Key && nt.Effect == t.Effect {
							found = true
						}
					}
					if !found {
						why = append(why, fmt.Sprintf("taint %s not synced to the Node", t.Key))
					}
				}
			}
			if len(why) > 0 {
				o.viol = append(o.viol, c01Violation{"Registered=True without its preconditions", fmt.Sprintf("NodeClaim %s: %s", cur.Name, strings.Join(why, "; "))})
			}
		}
		if now["Initialized"] && !o.prev["Initialized"] {
			o.transitions = append(o.transitions, "Initialized")
			var why []string
			if !now["Registered"] {
				why = append(why, "Registered is not True")
			}
			if node == nil {
				why = append(why, "no Node")
			} else {
				ready := false
				for _, cnd := range node.Status.Conditions {
					if cnd.Type == corev1.NodeReady && cnd.Status == corev1.ConditionTrue {
						ready = true
					}
				}
				if !ready {
					why = append(why, "Node is not Ready")
				}
				for _, t := range node.Spec.Taints {
					for _, s := range cur.Spec.StartupTaints {
						if s.Key == t.Key && s.Effect == t.Effect {
							why = append(why, "startup taint "+t.Key+" still on the Node")
						}
					}
					if t.Key == "node.kubernetes.io/not-ready" || t.Key == "node.kubernetes.io/unreachable" || t.Key == "node.cloudprovider.kubernetes.io/uninitialized" {
						why = append(why, "ephemeral taint "+t.Key+" still on the Node")
					}
				}
				for name, q := range cur.Spec.Resources.Requests {
					if q.IsZero() {
						continue
					}
					if a, ok := node.Status.Allocatable[name]; !ok || a.IsZero() {
						why = append(why, fmt.Sprintf("requested resource %s not reported by the Node", name))
					}
				}
			}
			if len(why) > 0 {
				o.viol = append(o.viol, c01Violation{"Initialized=True without its preconditions", fmt.Sprintf("NodeClaim %s: %s", cur.Name, strings.Join(why, "; "))})
			}
		}
		o.prev = now
	}
}

func (o *lcObserver) nodeFor(nc *v1.NodeClaim) *corev1.Node {
	if nc.Status.ProviderID == "" {
		return nil
	}
	nodes := &corev1.NodeList{}
	if err := o.w.Raw.List(o.w.Ctx, nodes); err != nil {
		return nil
	}
	for i := range nodes.Items {
		if nodes.Items[i].Spec.ProviderID == nc.Status.ProviderID {
			return &nodes.Items[i]
		}
	}
	return nil
}

func finalizersOf(nc *v1.NodeClaim) []string {
	if nc == nil {
		return nil
	}
	return nc.Finalizers
}

func containsStr(s []string, v string) bool {
	for _, x := range s {
		if x == v {
			return true
		}
	}
	return false
}

// c14Run executes one lifecycle history chosen by the run and returns the observer.
func c14Run(sc lcScenario, run *explore.Run, rounds int, interleave bool) (*lcObserver, []string, string) {
	c := SchedCase{Catalog: sc.catalog, Pool: sc.pool, Nodes: 0, DS: 0, Pref: options.PreferencePolicyRespect, MinV: options.MinValuesPolicyStrict, Batch: []int{shapeIdx(sc.shape)}, Workers: 1}
	env := buildSched(c)
	out := env.runPass(explore.Replay(nil), 1)
	if out.Err != nil || len(out.Created) != 1 || out.Created[0] == nil {
		panic(fmt.Sprintf("c14: scenario %s did not produce exactly one NodeClaim: %v %s", sc.name, out.Err, out.Digest))
	}
	w := env.W
	name := out.Created[0].Name
	if sc.foreign {
		w.Add(&corev1.Node{ObjectMeta: metav1.ObjectMeta{Name: "foreign", UID: "nodeuid-foreign", Labels: map[string]string{corev1.LabelHostname: "foreign"}},
			Status: corev1.NodeStatus{Conditions: []corev1.NodeCondition{{Type: corev1.NodeReady, Status: corev1.ConditionTrue}},
				Capacity: world.RL(4000, 8192), Allocatable: world.RL(3900, 8000)}})
	}
	w.Client.Log = nil
	obs := &lcObserver{w: w, creates: map[string]int{}, prev: map[string]bool{}}
	// "even when status writes fail": a write may also be committed by the server and reported as failed (500-applied)
	w.AmbiguousWrites = os.Getenv("VERIF_NO_AMBIG") == ""
	taken := w.AttachFaults(run, world.WritesAndProvider)
	var history []string
	w.Client.After = obs.after
	// the provider hook also reports through the client log; observe provider creates there
	inner := w.CP.Hook
	w.CP.Hook = func(cl *world.Call) error {
		err := inner(cl)
		if err != nil && cl.Verb == "cp-create" && (strings.Contains(err.Error(), "insufficient capacity") || strings.Contains(err.Error(), "nodeclass not ready")) {
			obs.iceAt = append(obs.iceAt, len(w.Client.Log))
		}
		return err
	}
	ctrl := lifecycle.NewController(w.Clock, w.Client, w.CP, w.Rec, nodepoolhealth.NewState(), nil)
	versions := []*v1.NodeClaim{w.GetNodeClaim(name)}
	lastGiven := 0
	nodeName := "node-" + name
	type evt struct {
		name string
		do   func()
	}
	// buildMenu computes the environment events that are possible NOW (also used in the middle of a reconcile)
	buildMenu := func() (menu []evt, def *evt) {
		cur := w.GetNodeClaim(name)
		if cur == nil {
			return nil, nil
		}
		node := w.GetNode(nodeName)
		launched := cur.Status.ProviderID != "" && w.CP.Instance(cur.Status.ProviderID) != nil
		if launched && node == nil {
			e := evt{"node-appears", func() { w.KubeletRegister(cur, world.RegisterOpts{NotReadyTaint: true, ZeroExt: true}) }}
			menu = append(menu, e, evt{"node-appears-without-unregistered-taint", func() {
				w.KubeletRegister(cur, world.RegisterOpts{NoUnregisteredTaint: true, NotReadyTaint: true, ZeroExt: true})
			}})
			def = &e
		}
		if node != nil {
			ready := false
			for _, cnd := range node.Status.Conditions {
				if cnd.Type == corev1.NodeReady && cnd.Status == corev1.ConditionTrue {
					ready = true
				}
			}
			if !ready {
				e := evt{"node-ready", func() { w.KubeletReady(nodeName) }}
				menu = append(menu, e)
				if def == nil {
					def = &e
				}
			}
			hasStartup := false
			for _, t := range node.Spec.Taints {
				for _, s := range cur.Spec.StartupTaints {
					if s.Key == t.Key {
						hasStartup = true
					}
				}
			}
			if hasStartup {
				e := evt{"startup-taints-removed", func() { w.RemoveStartupTaints(nodeName, cur) }}
				menu = append(menu, e)
				if def == nil {
					def = &e
				}
			}
			missingExt := false
			for rn, q := range cur.Spec.Resources.Requests {
				if a, ok := node.Status.Allocatable[rn]; !q.IsZero() && (!ok || a.IsZero()) {
					missingExt = true
				}
			}
			if missingExt {
				e := evt{"extended-resource-reported", func() { w.ReportExtended(nodeName, cur) }}
				menu = append(menu, e)
				if def == nil {
					def = &e
				}
			}
			menu = append(menu, evt{"node-deleted-by-user", func() { w.EnvDelete(node) }})
		}
		if cur.Status.ProviderID == "" && !containsStr(cur.Finalizers, v1.TerminationFinalizer) {
			// a NodeClaim that does not carry the finalizer yet can be deleted by anyone at any time; the controller's cache
			// may still hold it: the next reconcile is handed a version of an object that no longer exists. (Once the
			// finalizer is on, only a force-removal could make it vanish — outside the statement.)
			menu = append(menu, evt{"nodeclaim-removed-from-the-api", func() { w.EnvDelete(cur) }})
		}
		menu = append(menu, evt{"clock+5m", func() { w.Clock.Step(5 * time.Minute) }}, evt{"clock+15m", func() { w.Clock.Step(15 * time.Minute) }},
			evt{"controller-restart", func() {
				ctrl = lifecycle.NewController(w.Clock, w.Client, w.CP, w.Rec, nodepoolhealth.NewState(), nil)
				obs.restarted = true
			}})
		return menu, def
	}
	// the kubelet may act in the MIDDLE of a reconcile too (before any of its calls). Only events that make preconditions
	// MORE true: a Node deleted between the controller's read and its write is an unavoidable time-of-check race, and the
	// oracle — which looks at the instant of the write — would demand more than the statement says.
	var inames []string
	if interleave {
		inames = []string{"node-appears", "node-appears-without-unregistered-taint", "node-ready", "startup-taints-removed", "extended-resource-reported"}
	}
	w.AttachInterleave(run, inames, func(ev, before string) bool {
		m, _ := buildMenu()
		for _, e := range m {
			if e.name == ev {
				e.do()
				history = append(history, "{"+ev+" during the reconcile, before "+before+"}")
				return true
			}
		}
		return false
	})
	for round := 0; round < rounds; round++ {
		cur := w.GetNodeClaim(name)
		if cur == nil {
			break
		}
		menu, def := buildMenu()
		none := evt{"none", func() {}}
		ordered := []evt{none}
		if def != nil && round > 0 {
			ordered = []evt{*def, none}
		}
		for _, e := range menu {
			if def == nil || e.name != def.name || round == 0 {
				ordered = append(ordered, e)
			}
		}
		k := run.Choose("env", len(ordered), nil)
		ordered[k].do()
		if ordered[k].name != "none" {
			history = append(history, ordered[k].name)
			if v := w.GetNodeClaim(name); v != nil {
				versions = append(versions, v)
			}
		}
		// ---- stale-read choice: any version not older than the last one this controller was given
		latest := w.GetNodeClaim(name)
		if latest == nil {
			// gone from the API: one last reconcile with the cached copy, then the history ends
			history = append(history, "reconcile(object gone, cached copy)")
			_, _ = ctrl.Reconcile(w.Ctx, versions[len(versions)-1].DeepCopy())
			break
		}
		if latest.ResourceVersion != versions[len(versions)-1].ResourceVersion {
			versions = append(versions, latest)
		}
		cands := len(versions) - lastGiven
		pick := run.Choose("stale", cands, nil) // 0 = latest
		idx := len(versions) - 1 - pick
		lastGiven = idx
		obj := versions[idx].DeepCopy()
		if pick > 0 {
			history = append(history, fmt.Sprintf("reconcile(stale rv=%s)", obj.ResourceVersion))
		} else {
			history = append(history, "reconcile")
		}
		before := len(w.Client.Log)
		_, _ = ctrl.Reconcile(w.Ctx, obj)
		// capacity error => the same reconcile must try to delete the NodeClaim
		for _, at := range obs.iceAt {
			if at >= before {
				deleted := false
				for _, cl := range w.Client.Log[before:] {
					if cl.Verb == "delete" && cl.Kind == "NodeClaim" {
						deleted = true
					}
				}
				if !deleted {
					obs.viol = append(obs.viol, c01Violation{"capacity error did not delete the NodeClaim", fmt.Sprintf("NodeClaim %s: provider reported a capacity error but the reconcile issued no Delete", name)})
				}
			}
		}
		if v := w.GetNodeClaim(name); v != nil && v.ResourceVersion != versions[len(versions)-1].ResourceVersion {
			versions = append(versions, v)
		}
	}
	for _, t := range *taken {
		history = append(history, "fault:"+t.Call+"="+t.Fault)
	}
	final := "gone"
	if v := w.GetNodeClaim(name); v != nil {
		final = fmt.Sprintf("L=%v R=%v I=%v deleting=%v", condTrue(v, v1.ConditionTypeLaunched), condTrue(v, v1.ConditionTypeRegistered), condTrue(v, v1.ConditionTypeInitialized), v.DeletionTimestamp != nil)
	}
	return obs, history, final
}

var _ = client.ObjectKey{}

func init() {
	register("C14", "fault_enumeration", func(r *ev.Rec) {
		bound, rounds := 2, 7
		type passT struct {
			bound      int
			interleave bool
		}
		// second pass: kubelet events may also happen in the middle of a reconcile (one deviation, nothing else)
		passes := []passT{{1, true}, {2, false}}
		if r.Tier == "thorough" {
			bound, rounds = 3, 7
			passes = []passT{{1, true}, {2, false}, {3, false}}
		}
		r.Rule = fmt.Sprintf("NodeClaims created by the real provisioner in %d scenarios (plain, startup taint, requested extended resource, template taint, plain next to an unrelated Node that has no provider id) are driven through the real lifecycle controller for %d rounds; "+
			"each round = one environment event (node appears with/without the unregistered taint, Ready, startup taints removed, extended resource reported, node deleted, the NodeClaim object removed from the API while the controller still holds a cached copy, clock +5m/+15m, controller restart, none) then one Reconcile handed any NodeClaim version not older than the last one given (stale read); "+
			"every API WRITE and provider call (reads never fail, as the property quantifies) may fail (500 / 409 on optimistic lock / provider error / InsufficientCapacity / NodeClassNotReady). All histories with <=%d deviations from the happy path (non-default event, stale version, fault) are explored; a second pass explores every history with ONE kubelet event (node appears / Ready / taints removed / resource reported) happening in the MIDDLE of a reconcile, before any one of its calls. "+
			"Oracle at the instant of each provider Create and each NodeClaim write. non-trivial = distinct (scenario, history)", len(lcScenarios), rounds, bound)
		r.Assumptions = []string{"at-most-once Create is only required while the controller keeps running (runs with a restart skip that clause)", "the launch cache's one-hour real-time TTL is never reached", "a failed API write is either rejected (API unchanged) or committed and reported as a 500 (500-applied); the observer treats the latter as applied"}
		// passes outermost, cheapest first: every scenario is covered at the lower bound before the deeper pass starts, so a
		// deadline cuts the deepest pass only (the evidence says which pass completed)
		for pi, pass := range passes {
			pass := pass
			completed := true
			enum.RunEveryShard(r, int64(len(lcScenarios)), func(i int64, l *ev.Local) {
				sc := lcScenarios[i]
				bound, interleave := pass.bound, pass.interleave
				ex := &explore.Explorer{Bound: bound, MaxExecs: 200000, Stop: r.Expired, Shard: r.Shard, NShards: r.Shards}
				ex.Exec = func(run *explore.Run) {
					l.Mute = run.Replica
					obs, history, final := c14Run(sc, run, rounds, interleave)
					l.Eval()
					l.Trace()
					l.Nontrivial(sc.name + "/" + strings.Join(history, ","))
					l.Outcome(final + " transitions=" + strings.Join(obs.transitions, ">"))
					if len(obs.regressed) > 0 {
						l.Outcome("condition regressed under a stale read: " + strings.Join(obs.regressed, ","))
					}
					for _, v := range obs.viol {
						l.Violation(v.Sig, fmt.Sprintf("%s  [scenario=%s history=%v]", v.Msg, sc.name, history), map[string]any{"scenario": sc.name, "choices": run.Choices(), "faults": run.Plan(), "rounds": rounds, "interleave": interleave, "history": history, "calls": callStrings(obs.w)})
					}
					if len(run.Choices()) > 0 && run.Used == bound && len(history)%5 == 0 {
						l.Sample(map[string]any{"scenario": sc.name, "history": history, "final": final})
					}
				}
				ex.Explore()
				noteDiverged(l, ex, "prefix")
				l.Transitions += int64(ex.Points)
				if ex.Capped {
					l.Outcome("exploration-capped")
					r.Exhaustive = false
				}
			})
			if r.Expired() {
				completed = false
			}
			if completed {
				// per shard process; summed by the parent: the pass is complete iff every shard completed it
				k := fmt.Sprintf("shards_that_completed_pass_%d_of_%d_(<=%d_deviations,_events_inside_a_reconcile_%v)_sum", pi+1, len(passes), pass.bound, pass.interleave)
				if v, ok := r.Extra[k].(float64); ok {
					r.Extra[k] = v + 1
				} else {
					r.Extra[k] = 1.0
				}
			}
		}
	})
}

func init() {
	registerReplay("C14", func(d map[string]any) []string {
		name, _ := d["scenario"].(string)
		rounds := 6
		if f, ok := d["rounds"].(float64); ok {
			rounds = int(f)
		}
		for _, sc := range lcScenarios {
			if sc.name != name {
				continue
			}
			il, _ := d["interleave"].(bool)
			obs, history, final := c14Run(sc, explore.ReplayPlan(intList(d["choices"]), intMap(d["faults"])), rounds, il)
			fmt.Printf("scenario %s\nhistory %v\nfinal %s\n", sc.name, history, final)
			for _, c := range callStrings(obs.w) {
				fmt.Println("  call:", c)
			}
			var sigs []string
			for _, v := range obs.viol {
				fmt.Printf("violation %q: %s\n", v.Sig, v.Msg)
				sigs = append(sigs, v.Sig)
			}
			return sigs
		}
		fmt.Println("unknown scenario", name)
		return nil
	})
}
