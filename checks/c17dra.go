package checks

import (
	"os"
	"unique"

	"fmt"
	"runtime/debug"
	"sort"
	"strings"

	corev1 "k8s.io/api/core/v1"
	resourcev1 "k8s.io/api/resource/v1"
	"k8s.io/apimachinery/pkg/api/resource"
	metav1 "k8s.io/apimachinery/pkg/apis/meta/v1"
	"k8s.io/apimachinery/pkg/types"
	"sigs.k8s.io/controller-runtime/pkg/client"
	"sigs.k8s.io/controller-runtime/pkg/reconcile"

	v1 "sigs.k8s.io/karpenter/pkg/apis/v1"
	"sigs.k8s.io/karpenter/pkg/cloudprovider"
	"sigs.k8s.io/karpenter/pkg/cloudprovider/fake"
	"sigs.k8s.io/karpenter/pkg/operator/options"
	"sigs.k8s.io/karpenter/pkg/test"

	"verif/internal/enum"
	"verif/internal/ev"
	"verif/internal/explore"
	"verif/world"
)

// C17, DRA half — "with dynamic resource allocation enabled, no exclusive device is assigned to two claims and no shared
// device's capacity or counters are over-consumed", observed at Results.DRAClaimAllocationMetadata.
//
// The oracle does not look at the allocator's tracker. It knows the devices from the harness's own description
// (draDev) and judges the reported allocations under EVERY resolution of the new NodeClaims to one of their remaining
// instance types: a claim's allocation is recorded per instance type its NodeClaim may still become, and which of them
// materialises is the provider's choice.

const draGi = int64(1) << 30

type draDev struct {
	multi    bool             // AllowMultipleAllocations (shared, capacity-consuming)
	capMem   int64            // total memory capacity of a shared device (bytes)
	counters map[string]int64 // counters one allocation of this device consumes from its pool's counter set
	ctrSet   string           // name of that counter set (default "gpu-slices")
}

type draWorldSpec struct {
	name string
	// instance types: harness ITSpec + the DRA templates of one of the repository's fake builders
	types []draType
	// in-cluster population
	slices []*resourcev1.ResourceSlice
	// claims that are already allocated (with a live consumer pod bound to the existing node)
	allocated func(consumer *corev1.Pod) []*resourcev1.ResourceClaim
	// oracle's description of every device by "driver/pool/device" (template pools are named "<type>-pool")
	devs map[string]draDev
	// counter budgets by "driver/pool/counterSet/counter"
	budgets map[string]int64
	// capacity / exclusivity already consumed in the cluster before the pass
	preExclusive map[string]bool
	preMem       map[string]int64
	preCtr       map[string]int64 // "driver/pool/counterSet/counter" -> consumed before the pass
	// roomOnNode: the existing node keeps room for the batch (its node-local devices are then reachable)
	roomOnNode bool
	// lateSharer: a HISTORY instead of a state — after the deviceallocation controller has seen the held claim reserved
	// for the holder pod, a second pod on another (full, healthy) node starts sharing the claim (reservedFor grows, the
	// allocation is unchanged) and the controller reconciles the claim again; then the first holder's node is marked for
	// deletion. The device is still in use by the second pod.
	lateSharer bool
	// nodeSlices: in-cluster slices pinned to the existing node with spec.nodeName (built once the node exists)
	nodeSlices func(node *corev1.Node) []*resourcev1.ResourceSlice
}

type draType struct {
	spec world.ITSpec
	dr   func(name string) cloudprovider.DynamicResources
}

func drGPU(n int) func(string) cloudprovider.DynamicResources {
	return func(name string) cloudprovider.DynamicResources {
		return fake.GPUInstanceType(name, n).DynamicResources
	}
}
func drCap(total string) func(string) cloudprovider.DynamicResources {
	return func(name string) cloudprovider.DynamicResources {
		return fake.CapacityGPUInstanceType(name, total, nil).DynamicResources
	}
}
func drPart(budget, profiles, per int) func(string) cloudprovider.DynamicResources {
	return func(name string) cloudprovider.DynamicResources {
		return fake.PartitionableGPUInstanceType(name, "gpu-slices", map[string]resource.Quantity{"slices": resource.MustParse(fmt.Sprint(budget))}, profiles, map[string]resource.Quantity{"slices": resource.MustParse(fmt.Sprint(per))}).DynamicResources
	}
}

func draIT(name string, cpu int, price float64) world.ITSpec {
	return world.ITSpec{Name: name, CPU: cpu, MemGi: 2 * cpu, Pods: 8, Offers: []world.OfSpec{of("a", "on-demand", price), of("b", "on-demand", price*1.05)}}
}

func gpuKey(pool, dev string) string { return test.GPUDriver + "/" + pool + "/" + dev }

func draWorlds() []draWorldSpec {
	excl := draDev{}
	g1 := draType{draIT("g1", 4, 2), drGPU(1)}
	g2 := draType{draIT("g2", 8, 4), drGPU(2)}
	plain := draType{draIT("plain", 4, 1), nil}
	capT := draType{draIT("cap", 8, 5), drCap("40Gi")}
	part := draType{draIT("part", 8, 6), drPart(4, 3, 2)}
	tplDevs := map[string]draDev{
		gpuKey("g1-pool", "g1-gpu-0"): excl, gpuKey("g2-pool", "g2-gpu-0"): excl, gpuKey("g2-pool", "g2-gpu-1"): excl,
		gpuKey("cap-pool", "cap-gpu-0"):       {multi: true, capMem: 40 * draGi},
		gpuKey("part-pool", "part-profile-0"): {counters: map[string]int64{"slices": 2}},
		gpuKey("part-pool", "part-profile-1"): {counters: map[string]int64{"slices": 2}},
		gpuKey("part-pool", "part-profile-2"): {counters: map[string]int64{"slices": 2}},
	}
	with := func(extra map[string]draDev) map[string]draDev {
		out := map[string]draDev{}
		for k, v := range tplDevs {
			out[k] = v
		}
		for k, v := range extra {
			out[k] = v
		}
		return out
	}
	partBudget := map[string]int64{test.GPUDriver + "/part-pool/gpu-slices/slices": 4}
	out := []draWorldSpec{
		{name: "templates-only {g1,g2,plain}", types: []draType{g1, g2, plain}, devs: with(nil)},
		{name: "cluster-wide pool of 2 + zoned device + templates {g2,plain}", types: []draType{g2, plain},
			slices: []*resourcev1.ResourceSlice{test.ClusterWideSlice("cw", test.GPUDriver, "cw-0", "cw-1"), test.ZonedSlice("za", test.GPUDriver, "a", "za-0")},
			devs:   with(map[string]draDev{gpuKey("cw", "cw-0"): excl, gpuKey("cw", "cw-1"): excl, gpuKey("za", "za-0"): excl})},
		{name: "cluster-wide pool of 2, one device held by a running pod; no templates {plain}", types: []draType{plain},
			slices: []*resourcev1.ResourceSlice{test.ClusterWideSlice("cw", test.GPUDriver, "cw-0", "cw-1")},
			allocated: func(c *corev1.Pod) []*resourcev1.ResourceClaim {
				return []*resourcev1.ResourceClaim{test.AllocatedClusterWideClaim("held", "cw", test.GPUDriver, "cw-0", test.PodConsumer(c))}
			},
			devs: with(map[string]draDev{gpuKey("cw", "cw-0"): excl, gpuKey("cw", "cw-1"): excl}), preExclusive: map[string]bool{gpuKey("cw", "cw-0"): true}},
		{name: "cluster-wide pool of 1 held by a claim that a pod on a deleting node and, later, a pod on a healthy node share {plain}", types: []draType{plain}, lateSharer: true,
			slices: []*resourcev1.ResourceSlice{test.ClusterWideSlice("cw", test.GPUDriver, "cw-0")},
			allocated: func(c *corev1.Pod) []*resourcev1.ResourceClaim {
				return []*resourcev1.ResourceClaim{test.AllocatedClusterWideClaim("held", "cw", test.GPUDriver, "cw-0", test.PodConsumer(c))}
			},
			devs: map[string]draDev{gpuKey("cw", "cw-0"): excl}, preExclusive: map[string]bool{gpuKey("cw", "cw-0"): true}},
		{name: "shared in-cluster device 40Gi with 20Gi held by a running pod + capacity template {cap,plain}", types: []draType{capT, plain},
			slices: []*resourcev1.ResourceSlice{test.SharedCapacitySlice("shared", test.GPUDriver, "shared-0", "40Gi")},
			allocated: func(c *corev1.Pod) []*resourcev1.ResourceClaim {
				return []*resourcev1.ResourceClaim{test.AllocatedSharedClaim("held", "shared", test.GPUDriver, "shared-0", test.CapacityRequest("20Gi"), test.PodConsumer(c))}
			},
			devs: with(map[string]draDev{gpuKey("shared", "shared-0"): {multi: true, capMem: 40 * draGi}}), preMem: map[string]int64{gpuKey("shared", "shared-0"): 20 * draGi}},
		{name: "capacity template only: one multi-allocatable 40Gi device per node {cap,plain}", types: []draType{capT, plain}, devs: with(nil)},
		{name: "shared in-cluster device 40Gi with 20Gi held by a running pod, no templates {plain}", types: []draType{plain},
			slices: []*resourcev1.ResourceSlice{test.SharedCapacitySlice("shared", test.GPUDriver, "shared-0", "40Gi")},
			allocated: func(c *corev1.Pod) []*resourcev1.ResourceClaim {
				return []*resourcev1.ResourceClaim{test.AllocatedSharedClaim("held", "shared", test.GPUDriver, "shared-0", test.CapacityRequest("20Gi"), test.PodConsumer(c))}
			},
			devs: with(map[string]draDev{gpuKey("shared", "shared-0"): {multi: true, capMem: 40 * draGi}}), preMem: map[string]int64{gpuKey("shared", "shared-0"): 20 * draGi}},
		// node-local partitionable GPU published by the existing node (slices pinned with spec.nodeName, the form kubelet
		// plugins publish): one 40Gi counter, partitions half-a / half-b (20Gi each) and whole (40Gi); WHOLE is already held
		{name: "node-local partitionable device on the existing node, its whole-GPU partition held by a running pod {plain}", types: []draType{plain}, roomOnNode: true,
			nodeSlices: func(node *corev1.Node) []*resourcev1.ResourceSlice {
				pool := test.NodeLocalPoolName(test.GPUDriver, node.Name)
				mk := func(name string, spec resourcev1.ResourceSliceSpec) *resourcev1.ResourceSlice {
					spec.Driver, spec.NodeName = test.GPUDriver, &node.Name
					spec.Pool = resourcev1.ResourcePool{Name: pool, Generation: 1, ResourceSliceCount: 2}
					return &resourcev1.ResourceSlice{ObjectMeta: metav1.ObjectMeta{Name: name, OwnerReferences: []metav1.OwnerReference{{APIVersion: "v1", Kind: "Node", Name: node.Name, UID: node.UID}}}, Spec: spec}
				}
				part := func(name, amount string) resourcev1.Device {
					return resourcev1.Device{Name: name, ConsumesCounters: []resourcev1.DeviceCounterConsumption{{CounterSet: "gpu-0", Counters: map[string]resourcev1.Counter{"memory": {Value: resource.MustParse(amount)}}}}}
				}
				return []*resourcev1.ResourceSlice{
					mk("n0-counters", resourcev1.ResourceSliceSpec{SharedCounters: []resourcev1.CounterSet{{Name: "gpu-0", Counters: map[string]resourcev1.Counter{"memory": {Value: resource.MustParse("40Gi")}}}}}),
					mk("n0-devices", resourcev1.ResourceSliceSpec{Devices: []resourcev1.Device{part("half-a", "20Gi"), part("half-b", "20Gi"), part("whole", "40Gi")}}),
				}
			},
			allocated: func(c *corev1.Pod) []*resourcev1.ResourceClaim {
				return []*resourcev1.ResourceClaim{test.AllocatedClusterWideClaim("held", test.NodeLocalPoolName(test.GPUDriver, "n0"), test.GPUDriver, "whole", test.PodConsumer(c))}
			},
			devs: with(map[string]draDev{
				gpuKey(test.NodeLocalPoolName(test.GPUDriver, "n0"), "half-a"): {counters: map[string]int64{"memory": 20 * draGi}, ctrSet: "gpu-0"},
				gpuKey(test.NodeLocalPoolName(test.GPUDriver, "n0"), "half-b"): {counters: map[string]int64{"memory": 20 * draGi}, ctrSet: "gpu-0"},
				gpuKey(test.NodeLocalPoolName(test.GPUDriver, "n0"), "whole"):  {counters: map[string]int64{"memory": 40 * draGi}, ctrSet: "gpu-0"}}),
			budgets:      map[string]int64{test.GPUDriver + "/" + test.NodeLocalPoolName(test.GPUDriver, "n0") + "/gpu-0/memory": 40 * draGi},
			preExclusive: map[string]bool{gpuKey(test.NodeLocalPoolName(test.GPUDriver, "n0"), "whole"): true},
			preCtr:       map[string]int64{test.GPUDriver + "/" + test.NodeLocalPoolName(test.GPUDriver, "n0") + "/gpu-0/memory": 40 * draGi}},
		// ... and the same device with only ONE half held: the other half is still free, the whole is not
		{name: "node-local partitionable device on the existing node, one half held by a running pod {plain}", types: []draType{plain}, roomOnNode: true,
			nodeSlices: nil, // filled below (same slices)
			allocated: func(c *corev1.Pod) []*resourcev1.ResourceClaim {
				return []*resourcev1.ResourceClaim{test.AllocatedClusterWideClaim("held", test.NodeLocalPoolName(test.GPUDriver, "n0"), test.GPUDriver, "half-a", test.PodConsumer(c))}
			},
			devs: with(map[string]draDev{
				gpuKey(test.NodeLocalPoolName(test.GPUDriver, "n0"), "half-a"): {counters: map[string]int64{"memory": 20 * draGi}, ctrSet: "gpu-0"},
				gpuKey(test.NodeLocalPoolName(test.GPUDriver, "n0"), "half-b"): {counters: map[string]int64{"memory": 20 * draGi}, ctrSet: "gpu-0"},
				gpuKey(test.NodeLocalPoolName(test.GPUDriver, "n0"), "whole"):  {counters: map[string]int64{"memory": 40 * draGi}, ctrSet: "gpu-0"}}),
			budgets:      map[string]int64{test.GPUDriver + "/" + test.NodeLocalPoolName(test.GPUDriver, "n0") + "/gpu-0/memory": 40 * draGi},
			preExclusive: map[string]bool{gpuKey(test.NodeLocalPoolName(test.GPUDriver, "n0"), "half-a"): true},
			preCtr:       map[string]int64{test.GPUDriver + "/" + test.NodeLocalPoolName(test.GPUDriver, "n0") + "/gpu-0/memory": 20 * draGi}},
		{name: "partitionable template device: 3 profiles x 2 of a budget of 4 {part,plain}", types: []draType{part, plain}, devs: with(nil), budgets: partBudget},
		{name: "partitionable + plain GPUs {part,g2}", types: []draType{part, g2}, devs: with(nil), budgets: partBudget},
	}
	for i := range out {
		if out[i].nodeSlices == nil && out[i].roomOnNode && i > 0 {
			out[i].nodeSlices = out[i-1].nodeSlices
		}
	}
	return out
}

type draClaimShape struct {
	name string
	req  func(name string) []resourcev1.DeviceRequest
	// sharePrev: the pod references the claim of the previous pod of the batch instead of an own one
	sharePrev bool
}

var draShapes = []draClaimShape{
	{name: "one-gpu", req: func(string) []resourcev1.DeviceRequest {
		return []resourcev1.DeviceRequest{test.ExactDeviceRequest("req", "gpu", 1)}
	}},
	{name: "two-gpus", req: func(string) []resourcev1.DeviceRequest {
		return []resourcev1.DeviceRequest{test.ExactDeviceRequest("req", "gpu", 2)}
	}},
	{name: "all-gpus", req: func(string) []resourcev1.DeviceRequest {
		return []resourcev1.DeviceRequest{test.AllDeviceRequest("req", "gpu")}
	}},
	{name: "two-requests-of-one", req: func(string) []resourcev1.DeviceRequest {
		return []resourcev1.DeviceRequest{test.ExactDeviceRequest("ra", "gpu", 1), test.ExactDeviceRequest("rb", "gpu", 1)}
	}},
	{name: "capacity-30Gi", req: func(string) []resourcev1.DeviceRequest {
		return []resourcev1.DeviceRequest{test.ExactDeviceRequestWithCapacity("req", "gpu", 1, test.CapacityRequest("30Gi"))}
	}},
	{name: "capacity-15Gi", req: func(string) []resourcev1.DeviceRequest {
		return []resourcev1.DeviceRequest{test.ExactDeviceRequestWithCapacity("req", "gpu", 1, test.CapacityRequest("15Gi"))}
	}},
	{name: "first-available(two|one)", req: func(string) []resourcev1.DeviceRequest {
		return []resourcev1.DeviceRequest{test.FirstAvailableDeviceRequest("req", test.DeviceSubRequest("two", "gpu", 2), test.DeviceSubRequest("one", "gpu", 1))}
	}},
	{name: "shares-previous-pod's-claim", sharePrev: true},
}

type draCase struct {
	world int
	batch []int
	pref  options.PreferencePolicy
}

func (c draCase) String(ws []draWorldSpec) string {
	var n []string
	for _, b := range c.batch {
		n = append(n, draShapes[b].name)
	}
	return fmt.Sprintf("dra world=%q claims=[%s]", ws[c.world].name, strings.Join(n, ","))
}

func claimRef(name string) func(*corev1.Pod) {
	return func(p *corev1.Pod) {
		p.Spec.ResourceClaims = append(p.Spec.ResourceClaims, test.PodResourceClaimReference("dev", name))
		for i := range p.Spec.Containers {
			p.Spec.Containers[i].Resources.Claims = append(p.Spec.Containers[i].Resources.Claims, corev1.ResourceClaim{Name: "dev"})
		}
	}
}

type draEnv struct {
	w       *world.World
	spec    draWorldSpec
	claimOf map[string]string // pod -> claim name
}

func buildDRA(ws draWorldSpec, c draCase) *draEnv {
	w := world.New(world.Options{DRA: true, PreferencePolicy: c.pref})
	var its []world.ITSpec
	for _, t := range ws.types {
		its = append(its, t.spec)
	}
	cat := world.BuildCatalog(its)
	for i, t := range ws.types {
		if t.dr != nil {
			cat[i].DynamicResources = t.dr(t.spec.Name)
		}
	}
	w.CP.Catalog[""] = cat
	w.Add(world.NodeClass(), world.NodePool("default"), test.DeviceClassWithSelector("gpu", test.GPUDriver))
	for _, s := range ws.slices {
		w.Add(s.DeepCopy())
	}
	if ws.allocated != nil {
		// an initialized node of the plain type hosts the pod that holds the pre-allocated claim
		var plainSpec world.ITSpec
		for _, t := range ws.types {
			if t.spec.Name == "plain" {
				plainSpec = t.spec
			}
		}
		_, node := w.BuildNode(world.NodeSpec{Name: "n0", Pool: "default", Type: plainSpec, Offer: plainSpec.Offers[0]})
		holderCPU := int64(3500) // leaves no room for the batch on n0
		if ws.roomOnNode {
			holderCPU = 300
		}
		if ws.nodeSlices != nil {
			for _, sl := range ws.nodeSlices(node) {
				w.Add(sl)
			}
		}
		holder := world.Pod("holder", holderCPU, world.Bound(node.Name))
		holder.UID = types.UID("uid-holder")
		for _, cl := range ws.allocated(holder) {
			holder.Spec.ResourceClaims = append(holder.Spec.ResourceClaims, test.PodResourceClaimReference("dev", cl.Name))
			w.Add(cl)
		}
		w.Add(holder)
	}
	env := &draEnv{w: w, spec: ws, claimOf: map[string]string{}}
	prevClaim := ""
	for i, b := range c.batch {
		sh := draShapes[b]
		pod := fmt.Sprintf("p%d", i)
		claim := "claim-" + pod
		if sh.sharePrev && prevClaim != "" {
			claim = prevClaim
		} else {
			reqs := draShapes[0].req(claim)
			if !sh.sharePrev {
				reqs = sh.req(claim)
			}
			rc := &resourcev1.ResourceClaim{ObjectMeta: metav1.ObjectMeta{Name: claim, Namespace: "default", UID: types.UID("uid-" + claim)},
				Spec: resourcev1.ResourceClaimSpec{Devices: resourcev1.DeviceClaim{Requests: reqs}}}
			w.Add(rc)
		}
		prevClaim = claim
		env.claimOf[pod] = claim
		w.Add(world.Pod(pod, 1500, claimRef(claim)))
	}
	w.SyncCluster()
	// the allocator learns about devices that are already allocated through the deviceallocation controller
	w.DeviceAlloc.Hydrate(w.Ctx)
	cl := &resourcev1.ResourceClaimList{}
	must(w.Raw.List(w.Ctx, cl))
	for i := range cl.Items {
		_, _ = w.DeviceAlloc.Reconcile(w.Ctx, reconcile.Request{NamespacedName: client.ObjectKeyFromObject(&cl.Items[i])})
	}
	if ws.lateSharer {
		var plainSpec world.ITSpec
		for _, t := range ws.types {
			if t.spec.Name == "plain" {
				plainSpec = t.spec
			}
		}
		_, n1 := w.BuildNode(world.NodeSpec{Name: "n1", Pool: "default", Type: plainSpec, Offer: plainSpec.Offers[0]})
		sharer := world.Pod("holder-b", 3500, world.Bound(n1.Name))
		sharer.UID = types.UID("uid-holder-b")
		sharer.Spec.ResourceClaims = append(sharer.Spec.ResourceClaims, test.PodResourceClaimReference("dev", "held"))
		w.Add(sharer)
		held := &resourcev1.ResourceClaim{}
		must(w.Raw.Get(w.Ctx, clientKey("default", "held"), held))
		held.Status.ReservedFor = append(held.Status.ReservedFor, test.PodConsumer(sharer))
		w.EnvUpdate(held)
		w.SyncCluster()
		_, _ = w.DeviceAlloc.Reconcile(w.Ctx, reconcile.Request{NamespacedName: clientKey("default", "held")})
		if n0 := w.GetNode("n0"); n0 != nil {
			w.Cluster.MarkForDeletion(n0.Spec.ProviderID)
		}
	}
	return env
}

// judgeDRA checks the reported allocations under every resolution of the new NodeClaims to one remaining instance type.
func (env *draEnv) judgeDRA(out schedOutcome) (viol []c01Violation, allocated int) {
	meta := out.Results.DRAClaimAllocationMetadata
	// resolution domain per NodeClaim id
	type ncDom struct {
		id    string
		types []string
	}
	var doms []ncDom
	for _, nc := range out.Results.NewNodeClaims {
		if len(nc.Pods) == 0 {
			continue
		}
		var ts []string
		for _, it := range nc.InstanceTypeOptions {
			ts = append(ts, it.Name)
		}
		sort.Strings(ts)
		host := ""
		if r := nc.Requirements.Get(corev1.LabelHostname); r != nil && r.Len() == 1 {
			host = r.Values()[0]
		}
		doms = append(doms, ncDom{id: host, types: ts})
	}
	claims := make([]types.NamespacedName, 0, len(meta))
	for k := range meta {
		claims = append(claims, k)
	}
	sort.Slice(claims, func(i, j int) bool { return claims[i].String() < claims[j].String() })
	allocated = len(claims)
	dims := make([]int, len(doms))
	for i, d := range doms {
		dims[i] = len(d.types)
		if dims[i] == 0 {
			return viol, allocated
		}
	}
	seen := map[string]bool{}
	add := func(sig, msg string) {
		if !seen[sig+msg] {
			seen[sig+msg] = true
			viol = append(viol, c01Violation{sig, msg})
		}
	}
	for ri := int64(0); ri < enum.Size(dims...); ri++ {
		d := enum.Odo(ri, dims...)
		chosen := map[string]string{}
		var desc []string
		for i, dm := range doms {
			chosen[dm.id] = dm.types[d[i]]
			desc = append(desc, dm.id+"="+dm.types[d[i]])
		}
		users := map[string][]string{}      // exclusive device identity -> users
		mem := map[string]int64{}           // shared device identity -> consumed bytes
		ctr := map[string]int64{}           // counter identity -> consumed
		for k, v := range env.spec.preMem { // held before the pass (in-cluster devices)
			mem["ic/"+k] = v
		}
		for k, v := range env.spec.preCtr {
			ctr["ic/"+k] = v
		}
		for _, ck := range claims {
			m := meta[ck]
			ncID := m.NodeClaimID.Value()
			it, isNew := chosen[ncID]
			var allocs = m.Devices[uniqueIT(it)]
			if !isNew {
				// existing node: a single instance type
				for _, a := range m.Devices {
					allocs = a
				}
			}
			for _, a := range allocs {
				key := a.DeviceID.Driver.Value() + "/" + a.DeviceID.Pool.Value() + "/" + a.DeviceID.Device.Value()
				info, known := env.spec.devs[key]
				if !known {
					add("dra: allocation names a device that does not exist", fmt.Sprintf("claim %s is given %s, which no slice or template of this world publishes", ck.Name, key))
					continue
				}
				ident := "ic/" + key
				if a.DeviceID.Template {
					ident = "tpl/" + ncID + "/" + key
				}
				user := ck.Name + "/" + a.RequestName.String()
				switch {
				case info.multi:
					var q int64
					for _, c := range a.ConsumedCapacity {
						q += c.Value()
					}
					mem[ident] += q
				default:
					users[ident] = append(users[ident], user)
					if !a.DeviceID.Template && env.spec.preExclusive[key] && ck.Name != "held" { // (the holding claim itself may move with its pod)
						add("dra: exclusive device assigned twice", fmt.Sprintf("claim %s is given %s, which a running pod's claim already holds", ck.Name, key))
					}
				}
				for cn, q := range info.counters {
					cid := "ic/"
					if a.DeviceID.Template {
						cid = "tpl/" + ncID + "/"
					}
					set := info.ctrSet
					if set == "" {
						set = "gpu-slices"
					}
					ctr[cid+a.DeviceID.Driver.Value()+"/"+a.DeviceID.Pool.Value()+"/"+set+"/"+cn] += q
				}
			}
		}
		for ident, us := range users {
			if len(us) > 1 {
				sort.Strings(us)
				add("dra: exclusive device assigned twice", fmt.Sprintf("exclusive device %s is assigned to %v when the NodeClaims are launched as %v", ident, us, desc))
			}
		}
		for ident, q := range mem {
			key := ident[strings.Index(ident, test.GPUDriver):]
			if info := env.spec.devs[key]; q > info.capMem {
				add("dra: shared device capacity over-consumed", fmt.Sprintf("shared device %s: %d bytes consumed of %d when the NodeClaims are launched as %v", ident, q, info.capMem, desc))
			}
		}
		for cid, q := range ctr {
			key := cid[strings.Index(cid, test.GPUDriver):]
			if b, ok := env.spec.budgets[key]; ok && q > b {
				add("dra: shared counters over-consumed", fmt.Sprintf("counter %s: %d consumed of a budget of %d when the NodeClaims are launched as %v", cid, q, b, desc))
			}
		}
	}
	return viol, allocated
}

func c17DRA(r *ev.Rec) {
	ws := draWorlds()
	bsz := 3
	if r.Tier == "thorough" {
		bsz = 4
	}
	var bl [][]int
	for n := 1; n <= bsz; n++ {
		dims := make([]int, n)
		for i := range dims {
			dims[i] = len(draShapes)
		}
		for i := int64(0); i < enum.Size(dims...); i++ { // ordered batches: "shares the previous pod's claim" is positional
			bl = append(bl, enum.Odo(i, dims...))
		}
	}
	pols := []options.PreferencePolicy{options.PreferencePolicyRespect}
	r.Rule += fmt.Sprintf(" DRA part: %d worlds (template GPUs on instance types; a cluster-wide pool, a zoned device; a device already held by a running pod; shared multi-allocatable devices in the cluster (partly consumed) and as templates; partitionable template devices drawing on a counter budget; a node-local partitionable device published by an existing node with one partition already held) x all ORDERED batches of <=%d pods whose claims come from %d shapes (one / two / all devices, two requests, capacity 15Gi / 30Gi, first-available, a claim shared with the previous pod) x completion orders (2 workers, <=1 deviation) through the real Provisioner.Schedule with DRA enabled and the real deviceallocation controller; oracle on Results.DRAClaimAllocationMetadata under EVERY resolution of the new NodeClaims to one of their remaining instance types: no exclusive device (in-cluster: globally; template: per NodeClaim) has two users or is already held, consumed capacity of a shared device <= its capacity incl. what was held before, consumed counters <= the pool's budget, no panic from the tracker's guards.", len(ws), bsz, len(draShapes))
	r.Assumptions = append(r.Assumptions, "DRA part: devices, capacities and counter budgets are known to the oracle from the harness's own description of the slices and templates (built with the repository's fixtures in pkg/test and pkg/cloudprovider/fake)", "DRA part: attribute-binding constraints, admin access and several drivers are not in the alphabet")
	r.Extra["dra_worlds"] = len(ws)
	r.Extra["dra_claim_shapes"] = len(draShapes)
	enum.Run(r, enum.Size(len(ws), len(bl), len(pols)), func(idx int64, l *ev.Local) {
		d := enum.Odo(idx, len(ws), len(bl), len(pols))
		c := draCase{world: d[0], batch: bl[d[1]], pref: pols[d[2]]}
		ex := &explore.Explorer{Bound: 1, MaxExecs: 200}
		ex.Exec = func(run *explore.Run) {
			defer func() {
				if p := recover(); p != nil {
					if _, ok := p.(explore.Diverged); ok {
						panic(p)
					}
					l.Violation("dra: scheduler panicked", fmt.Sprintf("panic: %v  [%s]", p, c.String(ws)), map[string]any{"case": c.String(ws), "stack": string(debug.Stack())})
				}
			}()
			env := buildDRA(ws[c.world], c)
			senv := &SchedEnv{W: env.w}
			out := senv.runPass(run, 2)
			l.Eval()
			l.Traces++
			if out.Err != nil {
				l.Outcome("dra: schedule-error")
				return
			}
			viol, n := env.judgeDRA(out)
			if only := os.Getenv("C17DRA_ONLY"); only != "" && strings.Contains(c.String(ws), only) {
				fmt.Println("CASE", c.String(ws), "=>", out.Digest)
				for k, m := range out.Results.DRAClaimAllocationMetadata {
					for it, as := range m.Devices {
						for _, a := range as {
							fmt.Printf("   claim %s on %s as %s: %s consumed=%v req=%s\n", k.Name, m.NodeClaimID.Value(), it.Value(), a.DeviceID.String(), a.ConsumedCapacity, a.RequestName)
						}
					}
				}
				for p, e := range out.Results.PodErrors {
					fmt.Println("   pod error", p.Name, e)
				}
			}
			if n > 0 {
				l.NontrivialH(ev.H(fmt.Sprintf("dra/%d/%s", idx, out.Digest)))
			}
			l.Outcome(fmt.Sprintf("dra: claims allocated=%d new nodeclaims=%d pod errors=%d", n, len(out.Results.NewNodeClaims), len(out.Results.PodErrors)))
			for _, v := range viol {
				l.Violation(v.Sig, v.Msg+"  ["+c.String(ws)+"]", map[string]any{"case": c.String(ws), "choices": run.Choices(), "outcome": out.Digest})
			}
			if idx%211 == 5 && n > 0 {
				l.Sample(map[string]any{"case": c.String(ws), "outcome": out.Digest, "claims_allocated": n})
			}
		}
		ex.Explore()
		noteDiverged(l, ex, "dra-case")
		l.Transitions += int64(ex.Points)
	})
	// ... and while any one API READ of the pass fails once (claims, slices and device classes are looked up while the
	// pass decides): ordered batches of <=2 pods, sequential; a pass may allocate less, what it reports is judged alike
	var bl2 [][]int
	for _, b := range bl {
		if len(b) <= 2 {
			bl2 = append(bl2, b)
		}
	}
	enum.Run(r, enum.Size(len(ws), len(bl2)), func(idx int64, l *ev.Local) {
		d := enum.Odo(idx, len(ws), len(bl2))
		c := draCase{world: d[0], batch: bl2[d[1]], pref: options.PreferencePolicyRespect}
		ex := &explore.Explorer{Bound: 1, MaxExecs: 2000}
		ex.Exec = func(run *explore.Run) {
			defer func() {
				if p := recover(); p != nil {
					if _, ok := p.(explore.Diverged); ok {
						panic(p)
					}
					l.Violation("dra: scheduler panicked (while a read failed)", fmt.Sprintf("panic: %v  [%s]", p, c.String(ws)), map[string]any{"case": c.String(ws), "stack": string(debug.Stack())})
				}
			}()
			env := buildDRA(ws[c.world], c)
			senv := &SchedEnv{W: env.w}
			taken := env.w.AttachFaultsOpt(run, func(cl *world.Call) bool { return cl.Verb == "get" || cl.Verb == "list" }, false)
			senv.Between = func() { env.w.Client.Hook, env.w.CP.Hook = nil, nil }
			out := senv.runPass(explore.Replay(nil), 1)
			env.w.Client.Hook, env.w.CP.Hook = nil, nil
			l.Eval()
			l.Traces++
			if out.Err != nil {
				l.Outcome("dra read-fault: schedule-error")
				return
			}
			var faults []string
			for _, f := range *taken {
				faults = append(faults, f.Call+"="+f.Fault)
			}
			viol, n := env.judgeDRA(out)
			if n > 0 && len(faults) > 0 {
				l.NontrivialH(ev.H(fmt.Sprintf("drarf/%d/%v/%s", idx, faults, out.Digest)))
			}
			l.Outcome(fmt.Sprintf("dra read-fault: claims allocated=%v", n > 0))
			for _, v := range viol {
				l.Violation(v.Sig+" (while a read failed)", v.Msg+fmt.Sprintf("  [%s; failing reads %v]", c.String(ws), faults), map[string]any{"case": c.String(ws), "faults": faults, "plan": run.Plan(), "outcome": out.Digest})
			}
		}
		ex.Explore()
		noteDiverged(l, ex, "dra-read-fault")
		l.Transitions += int64(ex.Points)
	})
}

var _ = v1.NodePoolLabelKey

func uniqueIT(name string) unique.Handle[string] { return unique.Make(name) }
