package checks

import (
	"sort"

	corev1 "k8s.io/api/core/v1"

	"sigs.k8s.io/karpenter/pkg/controllers/provisioning/scheduling"

	"verif/internal/explore"
)

// curHooks is the receiver of the H1 hooks. A checker process runs one world at a time on one goroutine (process
// sharding, see cmd/vc), so a plain global is enough and costs nothing on the hot path.
var curHooks *Hooks

// Hooks is the goroutine-local receiver of the H1 hooks (build tag verif) for the world running on this goroutine.
type Hooks struct {
	Run      *explore.Run // nil => real parallelizeUntil
	Workers  int          // override of the worker count (0 = as requested by the code)
	Placed   []Placement
	ParCalls int
	MaxPar   int // largest number of pieces seen in one call
}

type Placement struct {
	Pod      string
	Target   string
	Existing bool
}

func init() {
	scheduling.VerifParallelize = func(workers, pieces int, f func(int) bool) bool {
		h := curHooks
		if h == nil || h.Run == nil {
			return false
		}
		h.simulate(workers, pieces, f)
		return true
	}
	scheduling.VerifPlaced = func(pod *corev1.Pod, target string, existing bool) {
		if h := curHooks; h != nil {
			h.Placed = append(h.Placed, Placement{Pod: pod.Name, Target: target, Existing: existing})
		}
	}
}

// simulate is a single-goroutine simulation of parallelizeUntil with W workers: pieces are pulled in index order by
// idle live workers; a pulled piece completes (doWorkPiece runs, atomically) at a moment the explorer chooses; a worker
// whose piece returned false stops. Default (cost 0): complete the lowest in-flight piece, else pull.
func (h *Hooks) simulate(workers, pieces int, f func(int) bool) {
	h.ParCalls++
	if pieces > h.MaxPar {
		h.MaxPar = pieces
	}
	if h.Workers > 0 {
		workers = h.Workers
	}
	if pieces < workers {
		workers = pieces
	}
	next, live := 0, workers
	var inflight []int
	for {
		canPull := next < pieces && len(inflight) < live
		if len(inflight) == 0 && !canPull {
			return
		}
		// enabled transitions in canonical order: complete(lowest..highest in flight), then pull
		n := len(inflight)
		if canPull {
			n++
		}
		c := 0
		if n > 1 {
			c = h.Run.Choose("par", n, nil)
		}
		if c < len(inflight) {
			sort.Ints(inflight)
			piece := inflight[c]
			inflight = append(inflight[:c], inflight[c+1:]...)
			if !f(piece) {
				live--
			}
		} else {
			inflight = append(inflight, next)
			next++
		}
	}
}
