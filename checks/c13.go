package checks

import (
	"fmt"
	"math"
	"runtime/debug"
	nodepoolhash "sigs.k8s.io/karpenter/pkg/controllers/nodepool/hash"
	"sort"
	"strings"

	corev1 "k8s.io/api/core/v1"

	v1 "sigs.k8s.io/karpenter/pkg/apis/v1"
	provscheduling "sigs.k8s.io/karpenter/pkg/controllers/provisioning/scheduling"
	"sigs.k8s.io/karpenter/pkg/operator/options"
	"sigs.k8s.io/karpenter/pkg/scheduling"

	"verif/internal/enum"
	"verif/internal/ev"
	"verif/internal/explore"
	"verif/oracle"
	"verif/world"
)

// C13 — the launch request (NodeClaim API object) carries the scheduler's decision faithfully.

func serialClass(as ...atom) string { return clsOf(as...) }

// c13Serialization: every requirement in the closure of the C12 atoms under Intersection (pairs, triples) must
// serialize to Kubernetes requirements admitting exactly what the in-memory requirement admits.
func c13Serialization(r *ev.Rec) {
	vals := []string{"0", "1", "2", "3", "a"}
	bounds := []string{"0", "1", "2", "3", fmt.Sprint(math.MaxInt64)}
	one := 1
	atoms := c12Atoms("k", vals, bounds, []*int{nil})
	atoms = append(atoms, c12Atoms("k", []string{"1", "a"}, []string{"1"}, []*int{&one})...)
	n := len(atoms)
	r.Extra["serialization_atoms"] = n
	enum.Run(r, int64(n)*int64(n), func(idx int64, l *ev.Local) {
		a, b := atoms[int(idx)/n], atoms[int(idx)%n]
		ra, rb := mk(a), mk(b)
		x := ra.Intersection(rb)
		check := func(req *scheduling.Requirement, src ...atom) {
			l.Eval()
			srcReqs := make([]oracle.Req, len(src))
			for i, s := range src {
				srcReqs[i] = s.r
			}
			W := oracle.Witness(srcReqs, []oracle.Req{{Values: []string{"0", "1", "2", "3", "a"}}})
			ser := scheduling.NewRequirements(req).NodeSelectorRequirements()
			var got, want []string
			for _, v := range W {
				if oracle.SatAll(ser, "k", true, v) {
					got = append(got, v)
				}
				if req.Has(v) {
					want = append(want, v)
				}
			}
			if strings.Join(got, ",") != strings.Join(want, ",") {
				l.Violation("serialization: "+serialClass(src...), fmt.Sprintf("in-memory (%s) admits {%s}; serialized as [%s] admits {%s}", atomsStr(src...), strings.Join(want, ","), oracle.ReqsString(ser), strings.Join(got, ",")),
					map[string]any{"source": srcReqs, "serialized": ser})
			}
			for _, s := range ser {
				if !eqPtr(s.MinValues, req.MinValues) {
					l.Violation("serialization-minvalues: "+serialClass(src...), fmt.Sprintf("(%s): MinValues %v serialized as %v", atomsStr(src...), req.MinValues, s.MinValues), nil)
				}
			}
			if len(got) != 0 && len(got) != len(W) {
				l.NontrivialH(ev.H("ser/" + atomsStr(src...)))
			}
		}
		if int(idx)%n == 0 {
			check(ra, a)
		}
		check(x, a, b)
		for ci := 0; ci < n; ci++ {
			c := atoms[ci]
			check(x.Intersection(mk(c)), a, b, c)
		}
		if idx == 4242 {
			l.Sample(map[string]any{"requirement": atomsStr(a, b), "serialized": oracle.ReqsString(scheduling.NewRequirements(x).NodeSelectorRequirements())})
		}
	})
}

// ---- whole path

type poolReqCase struct {
	key string
	req oracle.Req
}

func c13PoolReqs() []poolReqCase {
	var out []poolReqCase
	for _, key := range []string{world.TeamKey, world.GenKey} {
		vals := [][]string{{"1"}, {"1", "2"}, {"2", "3"}, {"x"}}
		for _, v := range vals {
			out = append(out, poolReqCase{key, oracle.Req{Key: key, Operator: corev1.NodeSelectorOpIn, Values: v}})
			out = append(out, poolReqCase{key, oracle.Req{Key: key, Operator: corev1.NodeSelectorOpNotIn, Values: v}})
		}
		out = append(out, poolReqCase{key, oracle.Req{Key: key, Operator: corev1.NodeSelectorOpExists}})
		out = append(out, poolReqCase{key, oracle.Req{Key: key, Operator: corev1.NodeSelectorOpDoesNotExist}})
		for _, b := range []string{"0", "1", "2", "3", fmt.Sprint(math.MaxInt64)} {
			for _, op := range []corev1.NodeSelectorOperator{corev1.NodeSelectorOpGt, corev1.NodeSelectorOpLt, v1.NodeSelectorOpGte, v1.NodeSelectorOpLte} {
				out = append(out, poolReqCase{key, oracle.Req{Key: key, Operator: op, Values: []string{b}}})
			}
		}
	}
	return out
}

var c13PodShapes = []podShape{
	{name: "small", cpu: 500},
	{name: "key-in-2", cpu: 500},    // filled per key below
	{name: "key-notin-2", cpu: 500}, // NotIn [2]
	{name: "key-gt-1", cpu: 500},
	{name: "key-lt-3", cpu: 500},
	{name: "key-exists", cpu: 500},
}

func c13Pod(shape int, key string) []func(*corev1.Pod) {
	switch shape {
	case 1:
		return []func(*corev1.Pod){requiredTerms([]corev1.NodeSelectorRequirement{nsr(key, corev1.NodeSelectorOpIn, "2")})}
	case 2:
		return []func(*corev1.Pod){requiredTerms([]corev1.NodeSelectorRequirement{nsr(key, corev1.NodeSelectorOpNotIn, "2")})}
	case 3:
		return []func(*corev1.Pod){requiredTerms([]corev1.NodeSelectorRequirement{nsr(key, corev1.NodeSelectorOpGt, "1")})}
	case 4:
		return []func(*corev1.Pod){requiredTerms([]corev1.NodeSelectorRequirement{nsr(key, corev1.NodeSelectorOpLt, "3")})}
	case 5:
		return []func(*corev1.Pod){requiredTerms([]corev1.NodeSelectorRequirement{nsr(key, corev1.NodeSelectorOpExists)})}
	case 6:
		return []func(*corev1.Pod){requiredTerms([]corev1.NodeSelectorRequirement{nsr(key, corev1.NodeSelectorOpDoesNotExist)})}
	}
	return nil
}

func c13ShapeName(shape int) string {
	return []string{"plain", "key In 2", "key NotIn 2", "key Gt 1", "key Lt 3", "key Exists", "key DoesNotExist"}[shape]
}

// judgeLaunchRequest compares the created NodeClaim with the scheduler's in-memory decision and the NodePool template.
func (env *SchedEnv) judgeLaunchRequest(out schedOutcome) (viol []c01Violation, n int) {
	strict := env.Case.MinV != options.MinValuesPolicyBestEffort
	for j, snc := range out.Results.NewNodeClaims {
		if j >= len(out.Created) || out.Created[j] == nil {
			continue
		}
		n++
		nc := out.Created[j]
		var np *v1.NodePool
		for _, p := range env.Pools {
			if p.Name == snc.NodePoolName {
				np = p
			}
		}
		if np == nil {
			viol = append(viol, c01Violation{"launch: unknown nodepool", "NodeClaim for unknown NodePool " + snc.NodePoolName})
			continue
		}
		// (1) key by key: the API requirements admit exactly what the in-memory requirements admit
		keys := map[string]bool{}
		for k := range snc.Requirements {
			keys[k] = true
		}
		for _, k := range oracle.Keys(nc.Spec.Requirements) {
			keys[k] = true
		}
		for k := range keys {
			if k == v1.NodeRegisteredLabelKey || k == v1.NodeInitializedLabelKey {
				if len(oracle.OnKey(nc.Spec.Requirements, k)) > 0 {
					viol = append(viol, c01Violation{"launch: simulation-only key leaked", "NodeClaim carries requirement on " + k})
				}
				continue
			}
			W := oracle.Witness(nc.Spec.Requirements, []oracle.Req{{Values: append(snc.Requirements.Get(k).Values(), "1", "2", "3", "x", "y")}})
			var api, mem []string
			for _, v := range W {
				if oracle.SatAll(nc.Spec.Requirements, k, true, v) {
					api = append(api, v)
				}
				if snc.Requirements.Get(k).Has(v) {
					mem = append(mem, v)
				}
			}
			var apiMV *int
			for _, rq := range oracle.OnKey(nc.Spec.Requirements, k) {
				apiMV = maxPtr(apiMV, rq.MinValues)
			}
			if !eqPtr(apiMV, snc.Requirements.Get(k).MinValues) {
				viol = append(viol, c01Violation{"launch: minValues differs on " + keyClass(k), fmt.Sprintf("key %s: scheduler minValues %v, NodeClaim %s carries %v", k, ptrStr(snc.Requirements.Get(k).MinValues), nc.Name, ptrStr(apiMV))})
			}
			if strings.Join(api, ",") != strings.Join(mem, ",") {
				viol = append(viol, c01Violation{"launch: requirement differs on " + keyClass(k), fmt.Sprintf("key %s: scheduler admits {%s}, NodeClaim %s admits {%s} (api: %s)", k, strings.Join(mem, ","), nc.Name, strings.Join(api, ","), oracle.ReqsString(oracle.OnKey(nc.Spec.Requirements, k)))})
			}
		}
		// (2) instance-type list: subset of the options, minValues floors under Strict
		listed, _ := reqValues(nc.Spec.Requirements, corev1.LabelInstanceTypeStable)
		opts := map[string]bool{}
		for _, it := range snc.InstanceTypeOptions {
			opts[it.Name] = true
		}
		for _, t := range listed {
			if !opts[t] {
				viol = append(viol, c01Violation{"launch: instance type not among options", fmt.Sprintf("NodeClaim %s lists %s, scheduler options %v", nc.Name, t, keysOf(opts))})
			}
		}
		if len(listed) == 0 {
			viol = append(viol, c01Violation{"launch: empty instance-type list", "NodeClaim " + nc.Name + " lists no instance type"})
		}
		if strict {
			for _, rq := range np.Spec.Template.Spec.Requirements {
				if rq.MinValues == nil {
					continue
				}
				distinct := map[string]bool{}
				for _, t := range listed {
					spec := pickType(env.Catalog, t)
					for _, o := range spec.Offers {
						if !o.Available {
							continue
						}
						if v, ok := world.LaunchLabels(spec, o)[rq.Key]; ok {
							distinct[v] = true
						}
					}
				}
				if len(distinct) < *rq.MinValues {
					viol = append(viol, c01Violation{"launch: minValues floor not met under Strict", fmt.Sprintf("NodeClaim %s: key %s needs %d distinct values, listed types %v offer %v", nc.Name, rq.Key, *rq.MinValues, listed, keysOf(distinct))})
				}
			}
		}
		// (3) requests cover pods + minimum daemon overhead among the listed types
		var cpu, cnt int64
		for _, p := range snc.Pods {
			if o := env.original(p.Name); o != nil {
				cpu += oracle.PodCPUm(o)
				cnt++
			}
		}
		minD, minDn := int64(math.MaxInt64), int64(math.MaxInt64)
		for _, l := range env.launchesFor(nc) {
			var d, dn int64
			for _, dp := range env.expectedDaemons(l.L, nc.Spec.Taints, nil) {
				d += oracle.PodCPUm(dp)
				dn++
			}
			if d < minD {
				minD = d
			}
			if dn < minDn {
				minDn = dn
			}
		}
		if minD == math.MaxInt64 {
			minD, minDn = 0, 0
		}
		if got := nc.Spec.Resources.Requests.Cpu().MilliValue(); got < cpu+minD {
			viol = append(viol, c01Violation{"launch: cpu request below pods + daemon overhead", fmt.Sprintf("NodeClaim %s requests %dm cpu; pods need %dm, least daemon overhead among permitted launches %dm", nc.Name, got, cpu, minD)})
		}
		if got := nc.Spec.Resources.Requests.Pods().Value(); got < cnt+minDn {
			viol = append(viol, c01Violation{"launch: pod-count request below pods + daemons", fmt.Sprintf("NodeClaim %s requests %d pods; %d placed + %d daemons", nc.Name, got, cnt, minDn)})
		}
		// (4) labels, taints, hash from the template
		for k, v := range np.Spec.Template.Labels {
			if nc.Labels[k] != v {
				viol = append(viol, c01Violation{"launch: template label missing", fmt.Sprintf("NodeClaim %s label %s=%q, template says %q", nc.Name, k, nc.Labels[k], v)})
			}
		}
		if nc.Labels[v1.NodePoolLabelKey] != np.Name {
			viol = append(viol, c01Violation{"launch: nodepool label", fmt.Sprintf("NodeClaim %s has nodepool label %q, want %q", nc.Name, nc.Labels[v1.NodePoolLabelKey], np.Name)})
		}
		if fmt.Sprint(nc.Spec.Taints) != fmt.Sprint(np.Spec.Template.Spec.Taints) || fmt.Sprint(nc.Spec.StartupTaints) != fmt.Sprint(np.Spec.Template.Spec.StartupTaints) {
			viol = append(viol, c01Violation{"launch: taints differ from template", fmt.Sprintf("NodeClaim %s taints %v/%v, template %v/%v", nc.Name, nc.Spec.Taints, nc.Spec.StartupTaints, np.Spec.Template.Spec.Taints, np.Spec.Template.Spec.StartupTaints)})
		}
		if got, want := nc.Annotations[v1.NodePoolHashAnnotationKey], np.Hash(); got != want {
			viol = append(viol, c01Violation{"launch: nodepool hash", fmt.Sprintf("NodeClaim %s hash annotation %q, NodePool hash %q", nc.Name, got, want)})
		}
		// (5) a custom label that the NodeClaim pins must be admitted by its own requirement on that key
		for k, v := range nc.Labels {
			if v1.WellKnownLabels.Has(k) || strings.Contains(k, "karpenter") {
				continue
			}
			if !oracle.SatAll(nc.Spec.Requirements, k, true, v) {
				viol = append(viol, c01Violation{"launch: pinned label violates own requirement", fmt.Sprintf("NodeClaim %s label %s=%s is not admitted by its requirement %s", nc.Name, k, v, oracle.ReqsString(oracle.OnKey(nc.Spec.Requirements, k)))})
			}
			// (5b) ... and it has to come from somewhere: the NodePool template, or a requirement of THIS NodeClaim on the key
			if _, tpl := np.Spec.Template.Labels[k]; !tpl && len(oracle.OnKey(nc.Spec.Requirements, k)) == 0 {
				viol = append(viol, c01Violation{"launch: label from neither the template nor the NodeClaim's own requirements", fmt.Sprintf("NodeClaim %s carries label %s=%s; the NodePool template has no such label and the NodeClaim has no requirement on %s", nc.Name, k, v, k)})
			}
		}
	}
	return viol, n
}

func ptrStr(p *int) string {
	if p == nil {
		return "nil"
	}
	return fmt.Sprint(*p)
}

func keyClass(k string) string {
	switch {
	case k == world.TeamKey:
		return "a custom key"
	case k == world.GenKey || k == world.FamKey:
		return "a provider label"
	}
	return k
}

func keysOf(m map[string]bool) []string {
	out := make([]string, 0, len(m))
	for k := range m {
		out = append(out, k)
	}
	sort.Strings(out)
	return out
}

func init() {
	register("C13", "exploration", func(r *ev.Rec) {
		r.Rule = "(a) every requirement in the closure (atoms, pairs, triples under Intersection) of the operator/value/bound alphabet is serialized with Requirements.NodeSelectorRequirements and re-evaluated by the label-set oracle on the witness universe; " +
			"(b) scheduler worlds (as C01) plus every NodePool whose single requirement on a custom / provider key is accepted by the real RuntimeValidate, x pods constraining that key: the NodeClaim observed at the API create is compared key by key with the scheduler's in-memory requirements, its instance-type list with the options and minValues floors, its requests with pods + least daemon overhead, its labels/taints/hash with the template; panics are caught and reported; (b4) the NodePool template edited between the scheduling decision and CreateNodeClaims: labels, taints and hash of the NodeClaim must all describe the template it was decided from; (b3) NodePools with a minValues floor on instance-type / zone / arch / provider keys x a launch-list limit (MaxInstanceTypes) of 1 or 2 x pods x both policies: the TRUNCATED list must still meet every floor under Strict. " +
			"non-trivial = distinct requirement with a partially admitting serialization, or distinct (case, created NodeClaim)"
		r.Assumptions = []string{"minValues floors are recomputed from the harness's catalog description", "NodePool.Hash() is used to compare the annotation (its own correctness is C15)"}
		c13Serialization(r)
		// (b1) C01-style worlds, sequential schedule only (ordering is C01/C19's concern)
		sp := c01Space(r.Tier)
		sp.batches = batches(len(podShapes), 1)
		if r.Tier == "thorough" {
			sp.batches = batches(len(podShapes), 2)
		}
		sp.workers = []int{1}
		sp.bound = 0
		forEachPass(r, sp, func(env *SchedEnv, out schedOutcome, l *ev.Local, c SchedCase, idx int64) {
			if out.Err != nil {
				return
			}
			viol, n := env.judgeLaunchRequest(out)
			if n > 0 {
				l.NontrivialH(ev.H(fmt.Sprintf("b1/%d/%s", idx, out.Digest)))
			}
			for _, v := range viol {
				l.Violation(v.Sig, v.Msg+"  ["+c.String()+"]", map[string]any{"case": c, "index": idx})
			}
			if idx%9973 == 5 && n > 0 {
				l.Sample(map[string]any{"case": c.String(), "created": out.Digest})
			}
		})
		// (b2) NodePool requirement atoms accepted by validation x pods constraining the key
		reqs := c13PoolReqs()
		pols := []options.MinValuesPolicy{options.MinValuesPolicyStrict, options.MinValuesPolicyBestEffort}
		var accepted, rejected int64
		enum.Run(r, enum.Size(len(reqs), len(c13PodShapes), len(pols)), func(idx int64, l *ev.Local) {
			d := enum.Odo(idx, len(reqs), len(c13PodShapes), len(pols))
			pr := reqs[d[0]]
			np := world.NodePool("default", reqsMod(pr.req))
			w0 := world.New(world.Options{})
			if err := np.RuntimeValidate(w0.Ctx); err != nil {
				rejected++
				l.Outcome("nodepool-rejected-by-validation")
				return
			}
			accepted++
			l.Eval()
			desc := fmt.Sprintf("NodePool requirement {%s}, pod %s, minValues=%s", oracle.ReqString(pr.req), c13PodShapes[d[1]].name, pols[d[2]])
			func() {
				defer func() {
					if p := recover(); p != nil {
						l.Violation("panic building the launch request: "+string(pr.req.Operator)+" on "+keyClass(pr.key), fmt.Sprintf("%s: panic: %v", desc, p), map[string]any{"nodepool_requirement": pr.req, "stack": string(debug.Stack())})
					}
				}()
				c := SchedCase{Catalog: "K4", MinV: pols[d[2]], Pref: options.PreferencePolicyRespect, Workers: 1}
				w := world.New(world.Options{MinValuesPolicy: c.MinV})
				env := &SchedEnv{W: w, Case: c, Catalog: catalogs["K4"], Volumes: map[string][]oracle.Volume{}, Pools: []*v1.NodePool{np}}
				w.CP.Catalog[""] = world.BuildCatalog(env.Catalog)
				w.Add(world.NodeClass(), np)
				p := world.Pod("p0", c13PodShapes[d[1]].cpu, c13Pod(d[1], pr.key)...)
				env.Pending = []*corev1.Pod{p}
				w.Add(p)
				w.SyncCluster()
				out := env.runPass(explore.Replay(nil), 1)
				if out.Err != nil {
					l.Outcome("schedule-error")
					return
				}
				viol, n := env.judgeLaunchRequest(out)
				pv, _ := env.judgePlacements(out)
				viol = append(viol, pv...)
				if n > 0 {
					l.NontrivialH(ev.H("b2/" + desc))
					l.Outcome("nodeclaim-created")
				} else {
					l.Outcome("no-nodeclaim")
				}
				for _, v := range viol {
					l.Violation(v.Sig, v.Msg+"  ["+desc+"]", map[string]any{"nodepool_requirement": pr.req, "pod": c13PodShapes[d[1]].name})
				}
				if idx == 77 {
					l.Sample(map[string]any{"case": desc, "created": out.Digest})
				}
			}()
		})
		// (b5) SIBLINGS: two pods that cannot share a node (5 cpu each) get one NodeClaim each from the same NodePool in ONE
		// pass; every ordered pair of custom-key shapes x {pool silent on the key, pool defining it} x both creation orders.
		// Each NodeClaim is judged on its own: what one sibling resolved must not show up on the other.
		sib := []int{0, 1, 2, 3, 5, 6} // plain, In 2, NotIn 2, Gt 1, Exists, DoesNotExist
		enum.Run(r, enum.Size(len(sib), len(sib), 2, 2), func(idx int64, l *ev.Local) {
			d := enum.Odo(idx, len(sib), len(sib), 2, 2)
			key := world.TeamKey
			np := world.NodePool("default")
			if d[2] == 1 {
				np = world.NodePool("default", reqsMod(oracle.R(key, corev1.NodeSelectorOpExists)))
			}
			c := SchedCase{Catalog: "K1", MinV: options.MinValuesPolicyStrict, Pref: options.PreferencePolicyRespect, Workers: 1}
			w := world.New(world.Options{MinValuesPolicy: c.MinV})
			env := &SchedEnv{W: w, Case: c, Catalog: catalogs["K1"], Volumes: map[string][]oracle.Volume{}, Pools: []*v1.NodePool{np}, CreateReversed: d[3] == 1}
			w.CP.Catalog[""] = world.BuildCatalog(env.Catalog)
			w.Add(world.NodeClass(), np)
			for i, sh := range []int{sib[d[0]], sib[d[1]]} {
				p := world.Pod(fmt.Sprintf("p%d", i), 5000, c13Pod(sh, key)...)
				env.Pending = append(env.Pending, p)
				w.Add(p)
			}
			w.SyncCluster()
			out := env.runPass(explore.Replay(nil), 1)
			l.Eval()
			if out.Err != nil {
				l.Outcome("schedule-error")
				return
			}
			desc := fmt.Sprintf("siblings: pods [%s, %s] of 5 cpu each, pool %s on %s, NodeClaims created in %s order", c13ShapeName(sib[d[0]]), c13ShapeName(sib[d[1]]), map[int]string{0: "silent", 1: "Exists"}[d[2]], key, map[int]string{0: "decision", 1: "reverse"}[d[3]])
			viol, n := env.judgeLaunchRequest(out)
			if n >= 2 {
				l.NontrivialH(ev.H("b5/" + desc))
				l.Outcome("sibling-nodeclaims-created")
			} else {
				l.Outcome("siblings: fewer than two nodeclaims")
			}
			for _, v := range viol {
				l.Violation(v.Sig, v.Msg+"  ["+desc+"]", map[string]any{"case": desc})
			}
		})
		// (b4) the NodePool template is EDITED between the scheduling decision and the creation of the NodeClaims (and the
		// hash controller re-stamps the NodePool): the NodeClaim still carries the labels / taints of the template it was
		// decided from, so its hash annotation must be the hash of THAT template
		b4Shapes := []string{"small", "zone-a-selector", "large"}
		enum.Run(r, enum.Size(len(b4Shapes), 3), func(idx int64, l *ev.Local) {
			d := enum.Odo(idx, len(b4Shapes), 3)
			np := world.NodePool("default", labelMod("env", "prod"))
			c := SchedCase{Catalog: "K1", MinV: options.MinValuesPolicyStrict, Pref: options.PreferencePolicyRespect, Workers: 1}
			w := world.New(world.Options{})
			env := &SchedEnv{W: w, Case: c, Catalog: catalogs["K1"], Volumes: map[string][]oracle.Volume{}, Pools: []*v1.NodePool{np.DeepCopy()}}
			w.CP.Catalog[""] = world.BuildCatalog(env.Catalog)
			w.Add(world.NodeClass(), np)
			sh := podShapes[shapeIdx(b4Shapes[d[0]])]
			p := world.Pod("p0", sh.cpu, sh.mods...)
			env.Pending = []*corev1.Pod{p}
			w.Add(p)
			w.SyncCluster()
			edit := []string{"label", "taint", "label+hash-controller"}[d[1]]
			env.Between = func() {
				cur := &v1.NodePool{}
				must(w.Raw.Get(w.Ctx, clientKey("", "default"), cur))
				if strings.HasPrefix(edit, "label") {
					cur.Spec.Template.Labels["env"] = "dev"
				} else {
					cur.Spec.Template.Spec.Taints = append(cur.Spec.Template.Spec.Taints, corev1.Taint{Key: "added-later", Effect: corev1.TaintEffectNoSchedule})
				}
				w.EnvUpdate(cur)
				if strings.HasSuffix(edit, "hash-controller") {
					must(w.Raw.Get(w.Ctx, clientKey("", "default"), cur))
					_, _ = nodepoolhash.NewController(w.Client, w.CP).Reconcile(w.Ctx, cur)
				}
			}
			out := env.runPass(explore.Replay(nil), 1)
			l.Eval()
			if out.Err != nil {
				l.Outcome("schedule-error")
				return
			}
			desc := fmt.Sprintf("pod %s; NodePool template edited (%s) between the scheduling decision and CreateNodeClaims", sh.name, edit)
			viol, n := env.judgeLaunchRequest(out)
			if n > 0 {
				l.NontrivialH(ev.H("b4/" + desc))
				l.Outcome("template edited before create: nodeclaim-created")
			}
			for _, v := range viol {
				l.Violation(v.Sig, v.Msg+"  ["+desc+"]", map[string]any{"case": desc})
			}
		})
		// (b3) truncation x minValues: the launch list is cut to MaxInstanceTypes cheapest types AFTER which every minValues
		// floor (on any key) must still hold under Strict
		type mvPool struct {
			cat string
			req v1.NodeSelectorRequirementWithMinValues
		}
		mv := func(key string, op corev1.NodeSelectorOperator, vals ...string) v1.NodeSelectorRequirementWithMinValues {
			return v1.NodeSelectorRequirementWithMinValues{Key: key, Operator: op, Values: vals, MinValues: two()}
		}
		mvPools := []mvPool{
			{"K4", mv(world.FamKey, corev1.NodeSelectorOpExists)},
			{"K4", mv(world.GenKey, corev1.NodeSelectorOpExists)},
			{"K4", mv(corev1.LabelInstanceTypeStable, corev1.NodeSelectorOpExists)},
			{"K4", mv(corev1.LabelTopologyZone, corev1.NodeSelectorOpIn, "a", "b")},
			{"K2", mv(corev1.LabelArchStable, corev1.NodeSelectorOpIn, "amd64", "arm64")},
			{"K2", mv(corev1.LabelInstanceTypeStable, corev1.NodeSelectorOpExists)},
		}
		mvShapes := []string{"small", "medium", "large", "zone-b-selector-large", "on-demand-selector"}
		limits := []int{1, 2}
		enum.Run(r, enum.Size(len(mvPools), len(mvShapes), len(limits), len(pols)), func(idx int64, l *ev.Local) {
			d := enum.Odo(idx, len(mvPools), len(mvShapes), len(limits), len(pols))
			mp := mvPools[d[0]]
			np := world.NodePool("default", reqsMod(mp.req))
			w0 := world.New(world.Options{})
			if err := np.RuntimeValidate(w0.Ctx); err != nil {
				l.Outcome("nodepool-rejected-by-validation")
				return
			}
			l.Eval()
			old := provscheduling.MaxInstanceTypes
			provscheduling.MaxInstanceTypes = limits[d[2]]
			defer func() { provscheduling.MaxInstanceTypes = old }()
			sh := podShapes[shapeIdx(mvShapes[d[1]])]
			desc := fmt.Sprintf("catalog %s, NodePool requirement {%s} minValues=2, launch-list limit %d, pod %s, policy %s", mp.cat, oracle.ReqString(mp.req), limits[d[2]], sh.name, pols[d[3]])
			c := SchedCase{Catalog: mp.cat, MinV: pols[d[3]], Pref: options.PreferencePolicyRespect, Workers: 1}
			w := world.New(world.Options{MinValuesPolicy: c.MinV})
			env := &SchedEnv{W: w, Case: c, Catalog: catalogs[mp.cat], Volumes: map[string][]oracle.Volume{}, Pools: []*v1.NodePool{np}}
			w.CP.Catalog[""] = world.BuildCatalog(env.Catalog)
			w.Add(world.NodeClass(), np)
			p := world.Pod("p0", sh.cpu, sh.mods...)
			env.Pending = []*corev1.Pod{p}
			w.Add(p)
			w.SyncCluster()
			out := env.runPass(explore.Replay(nil), 1)
			if out.Err != nil {
				l.Outcome("schedule-error")
				return
			}
			viol, n := env.judgeLaunchRequest(out)
			if n > 0 {
				l.NontrivialH(ev.H("b3/" + desc))
				l.Outcome("truncation x minValues: nodeclaim-created")
			} else {
				l.Outcome("truncation x minValues: no-nodeclaim")
			}
			for _, v := range viol {
				l.Violation(v.Sig, v.Msg+"  ["+desc+"]", map[string]any{"case": desc})
			}
			if idx == 13 {
				l.Sample(map[string]any{"case": desc, "created": out.Digest})
			}
		})
	})
}
