package checks

import (
	"fmt"

	"sigs.k8s.io/karpenter/pkg/operator/options"

	"verif/internal/enum"
	"verif/internal/ev"
	"verif/internal/explore"
)

type schedSpace struct {
	catalogs []string
	pools    []int
	nodes    []int
	ds       []int
	policies [][2]string
	batches  [][]int
	workers  []int // worker counts explored with H1 (1 = sequential only)
	bound    int   // completion-order deviations per pass
	reserved bool
}

func (s schedSpace) size() int64 {
	return enum.Size(len(s.catalogs), len(s.pools), len(s.nodes), len(s.ds), len(s.policies), len(s.batches))
}

func (s schedSpace) decode(i int64) SchedCase {
	d := enum.Odo(i, len(s.batches), len(s.catalogs), len(s.pools), len(s.nodes), len(s.ds), len(s.policies))
	pol := s.policies[d[5]]
	return SchedCase{Batch: s.batches[d[0]], Catalog: s.catalogs[d[1]], Pool: s.pools[d[2]], Nodes: s.nodes[d[3]], DS: s.ds[d[4]],
		Pref: options.PreferencePolicy(pol[0]), MinV: options.MinValuesPolicy(pol[1]), Workers: 1, Reserved: s.reserved}
}

func seq(n int) []int {
	out := make([]int, n)
	for i := range out {
		out[i] = i
	}
	return out
}

var allPolicies = [][2]string{{"Respect", "Strict"}, {"Ignore", "BestEffort"}, {"Respect", "BestEffort"}, {"Ignore", "Strict"}}

func c01Space(tier string) schedSpace {
	if tier == "thorough" {
		return schedSpace{catalogs: []string{"K1", "K2", "K4"}, pools: seq(len(poolCfgs)), nodes: seq(len(nodeCfgs)), ds: seq(len(dsCfgs)),
			policies: allPolicies, batches: batches(len(podShapes), 2), workers: []int{2, 3}, bound: 2}
	}
	return schedSpace{catalogs: []string{"K1", "K2", "K4"}, pools: seq(len(poolCfgs)), nodes: seq(len(nodeCfgs)), ds: seq(len(dsCfgs)),
		policies: allPolicies[:2], batches: batches(len(podShapes), 2), workers: []int{2}, bound: 1}
}

// forEachPass runs every case of the space, and for every case every candidate-evaluation schedule within the bound,
// on a fresh world each time, and hands the outcome to judge. It records schedule statistics.
func forEachPass(r *ev.Rec, sp schedSpace, judge func(env *SchedEnv, out schedOutcome, l *ev.Local, c SchedCase, idx int64)) {
	var multi, schedules int64
	enum.Run(r, sp.size(), func(i int64, l *ev.Local) {
		c := sp.decode(i)
		for _, wk := range sp.workers {
			c.Workers = wk
			digests := map[string]bool{}
			ex := &explore.Explorer{Bound: sp.bound, MaxExecs: 400}
			ex.Exec = func(run *explore.Run) {
				env := buildSched(c)
				out := env.runPass(run, wk)
				l.Eval()
				l.Traces++
				judge(env, out, l, c, i)
				digests[out.Digest] = true
			}
			ex.Explore()
			noteDiverged(l, ex, "prefix")
			l.Transitions += int64(ex.Points)
			if ex.Capped {
				l.Outcome("schedule-exploration-capped")
			}
			if len(digests) > 1 {
				l.Outcome("outcome-depends-on-worker-schedule")
				l.Sample(map[string]any{"case": c.String(), "distinct_outcomes_across_schedules": len(digests)})
			}
			if ex.Execs > 1 {
				l.Outcome("case-with-worker-schedule-choice")
			}
		}
	})
	_, _ = multi, schedules
}

func init() {
	register("C01", "exploration", func(r *ev.Rec) {
		sp := c01Space(r.Tier)
		r.Rule = fmt.Sprintf("full product: catalogs %v x %d NodePool configs x %d existing-capacity configs x %d daemonset configs x %d policy pairs x all pod batches (multisets of <=2 of %d shapes = %d); "+
			"each case is run through the real Provisioner.Schedule + CreateNodeClaims under every candidate-evaluation completion order with workers %v and <=%d order deviations (H1); "+
			"every placement is judged by the independent k8sadmit oracle on every launch (type, offering) the created NodeClaim permits. "+
			"non-trivial = distinct (case, outcome) with at least one placement", sp.catalogs, len(sp.pools), len(sp.nodes), len(sp.ds), len(sp.policies), len(podShapes), len(sp.batches), sp.workers, sp.bound)
		r.Assumptions = []string{"Go map iteration order is not owned (DESIGN §2.6): each case is executed once per schedule",
			"a fresh world per execution; fake API server; daemonset pods are not yet running on existing nodes",
			"label-determined constraints are required on EVERY permitted launch, resources on SOME compatible offering per instance type (as the statement words it)"}
		forEachPass(r, sp, func(env *SchedEnv, out schedOutcome, l *ev.Local, c SchedCase, idx int64) {
			if out.Err != nil {
				l.Outcome("schedule-error")
				return
			}
			viol, placements := env.judgePlacements(out)
			if placements > 0 {
				l.NontrivialH(ev.H(fmt.Sprintf("%d/%s", idx, out.Digest)))
			}
			l.Outcome(fmt.Sprintf("existing=%v new=%v errors=%v", countPlaced(out, true) > 0, len(out.Results.NewNodeClaims) > 0, len(out.Results.PodErrors) > 0))
			for _, v := range viol {
				l.Violation(v.Sig, v.Msg+"  ["+c.String()+"]", map[string]any{"case": c, "index": idx, "choices": env.Hooks.Run.Choices(), "outcome": out.Digest})
			}
			if idx%50021 == 7 {
				l.Sample(map[string]any{"case": c.String(), "outcome": out.Digest, "placements_judged": placements})
			}
		})
	})
}

func countPlaced(out schedOutcome, existing bool) int {
	n := 0
	if existing {
		for _, en := range out.Results.ExistingNodes {
			n += len(en.Pods)
		}
	} else {
		for _, nc := range out.Results.NewNodeClaims {
			n += len(nc.Pods)
		}
	}
	return n
}
