package checks

import (
	"fmt"
	"os"

	"sigs.k8s.io/karpenter/pkg/operator/options"

	"verif/internal/enum"
	"verif/internal/ev"
	"verif/internal/explore"
	"verif/world"
)

type schedSpace struct {
	catalogs []string
	pools    []int
	nodes    []int
	ds       []int
	policies [][2]string
	batches  [][]int
	workers  []int // worker counts explored with H1 (1 = sequential only)
	bound    int   // completion-order deviations per pass
	reserved bool
	// skip prunes cases of the product (reported as an outcome, never silently)
	skip func(c SchedCase) bool
}

func (s schedSpace) size() int64 {
	return enum.Size(len(s.catalogs), len(s.pools), len(s.nodes), len(s.ds), len(s.policies), len(s.batches))
}

func (s schedSpace) decode(i int64) SchedCase {
	d := enum.Odo(i, len(s.batches), len(s.catalogs), len(s.pools), len(s.nodes), len(s.ds), len(s.policies))
	pol := s.policies[d[5]]
	return SchedCase{Batch: s.batches[d[0]], Catalog: s.catalogs[d[1]], Pool: s.pools[d[2]], Nodes: s.nodes[d[3]], DS: s.ds[d[4]],
		Pref: options.PreferencePolicy(pol[0]), MinV: options.MinValuesPolicy(pol[1]), Workers: 1, Reserved: s.reserved}
}

func seq(n int) []int {
	out := make([]int, n)
	for i := range out {
		out[i] = i
	}
	return out
}

var allPolicies = [][2]string{{"Respect", "Strict"}, {"Ignore", "BestEffort"}, {"Respect", "BestEffort"}, {"Ignore", "Strict"}}

func c01Space(tier string) schedSpace {
	// the settled+fresh two-node configuration is about daemonset overhead on existing nodes: it is combined with the
	// daemonset configurations only (quick: catalog K1 and the first policy pair only)
	settledFresh := len(nodeCfgs) - 1
	if tier == "thorough" {
		return schedSpace{catalogs: []string{"K1", "K2", "K4"}, pools: seq(len(poolCfgs)), nodes: seq(len(nodeCfgs)), ds: seq(len(dsCfgs)),
			policies: allPolicies, batches: batches(len(podShapes), 2), workers: []int{2, 3}, bound: 2,
			skip: func(c SchedCase) bool { return c.Nodes == settledFresh && (c.DS == 0 || c.Catalog != "K1") }}
	}
	return schedSpace{catalogs: []string{"K1", "K2", "K4"}, pools: seq(len(poolCfgs)), nodes: seq(len(nodeCfgs)), ds: seq(len(dsCfgs)),
		policies: allPolicies[:2], batches: batches(len(podShapes), 2), workers: []int{2}, bound: 1,
		skip: func(c SchedCase) bool {
			return c.Nodes == settledFresh && (c.DS == 0 || c.Catalog != "K1" || string(c.Pref) != allPolicies[0][0] || string(c.MinV) != allPolicies[0][1])
		}}
}

// forEachPass runs every case of the space, and for every case every candidate-evaluation schedule within the bound,
// on a fresh world each time, and hands the outcome to judge. It records schedule statistics.
func forEachPass(r *ev.Rec, sp schedSpace, judge func(env *SchedEnv, out schedOutcome, l *ev.Local, c SchedCase, idx int64)) {
	var multi, schedules int64
	enum.Run(r, sp.size(), func(i int64, l *ev.Local) {
		c := sp.decode(i)
		if sp.skip != nil && sp.skip(c) {
			l.Outcome("case-outside-the-explored-sub-product")
			return
		}
		for _, wk := range sp.workers {
			c.Workers = wk
			digests := map[string]bool{}
			ex := &explore.Explorer{Bound: sp.bound, MaxExecs: 400}
			ex.Exec = func(run *explore.Run) {
				env := buildSched(c)
				out := env.runPass(run, wk)
				l.Eval()
				l.Traces++
				judge(env, out, l, c, i)
				digests[out.Digest] = true
			}
			ex.Explore()
			noteDiverged(l, ex, "prefix")
			l.Transitions += int64(ex.Points)
			if ex.Capped {
				l.Outcome("schedule-exploration-capped")
			}
			if len(digests) > 1 {
				l.Outcome("outcome-depends-on-worker-schedule")
				l.Sample(map[string]any{"case": c.String(), "distinct_outcomes_across_schedules": len(digests)})
			}
			if ex.Execs > 1 {
				l.Outcome("case-with-worker-schedule-choice")
			}
		}
	})
	_, _ = multi, schedules
}

func init() {
	register("C01", "exploration", func(r *ev.Rec) {
		sp := c01Space(r.Tier)
		r.Rule = fmt.Sprintf("full product: catalogs %v x %d NodePool configs x %d existing-capacity configs x %d daemonset configs x %d policy pairs x all pod batches (multisets of <=2 of %d shapes = %d); "+
			"each case is run through the real Provisioner.Schedule + CreateNodeClaims under every candidate-evaluation completion order with workers %v and <=%d order deviations (H1); "+
			"every placement is judged by the independent k8sadmit oracle on every launch (type, offering) the created NodeClaim permits. "+
			"non-trivial = distinct (case, outcome) with at least one placement", sp.catalogs, len(sp.pools), len(sp.nodes), len(sp.ds), len(sp.policies), len(podShapes), len(sp.batches), sp.workers, sp.bound)
		r.Assumptions = []string{"Go map iteration order is not owned (DESIGN §2.6): each case is executed once per schedule",
			"a fresh world per execution; fake API server; daemonset pods are not yet running on existing nodes",
			"label-determined constraints are required on EVERY permitted launch, resources on SOME compatible offering per instance type (as the statement words it)"}
		if os.Getenv("C01_ONLY_FAULTS") != "" { // debug: the read-fault part alone
			c01ReadFaults(r)
			return
		}
		forEachPass(r, sp, func(env *SchedEnv, out schedOutcome, l *ev.Local, c SchedCase, idx int64) {
			if out.Err != nil {
				l.Outcome("schedule-error")
				return
			}
			viol, placements := env.judgePlacements(out)
			if placements > 0 {
				l.NontrivialH(ev.H(fmt.Sprintf("%d/%s", idx, out.Digest)))
			}
			l.Outcome(fmt.Sprintf("existing=%v new=%v errors=%v", countPlaced(out, true) > 0, len(out.Results.NewNodeClaims) > 0, len(out.Results.PodErrors) > 0))
			for _, v := range viol {
				l.Violation(v.Sig, v.Msg+"  ["+c.String()+"]", map[string]any{"case": c, "index": idx, "choices": env.Hooks.Run.Choices(), "outcome": out.Digest})
			}
			if idx%50021 == 7 {
				l.Sample(map[string]any{"case": c.String(), "outcome": out.Digest, "placements_judged": placements})
			}
		})
		c01ReadFaults(r)
	})
}

// c01ReadFaults — the same oracle while API READS fail during the pass: every batch of <=2 shapes that contains a pod with
// a volume (the placement then depends on objects Karpenter has to look up: claim, volume, storage class) x pools x
// existing capacity, with any one read of the pass failing once. A pass may then place less; what it places must still be
// admissible (a pod whose volume zone could not be determined must not be placed as if it had none).
func c01ReadFaults(r *ev.Rec) {
	var bl [][]int
	for _, b := range batches(len(podShapes), 2) {
		for _, x := range b {
			if podShapes[x].storage != "" {
				bl = append(bl, b)
				break
			}
		}
	}
	pools := []int{0, 1}
	nodes := []int{0, 1, 6}
	bound := 1
	if r.Tier == "thorough" {
		pools, bound = seq(len(poolCfgs)), 2
	}
	r.Extra["read_fault_cases"] = enum.Size(len(bl), len(pools), len(nodes))
	enum.Run(r, enum.Size(len(bl), len(pools), len(nodes)), func(idx int64, l *ev.Local) {
		d := enum.Odo(idx, len(bl), len(pools), len(nodes))
		c := SchedCase{Batch: bl[d[0]], Catalog: "K1", Pool: pools[d[1]], Nodes: nodes[d[2]], Pref: options.PreferencePolicyRespect, MinV: options.MinValuesPolicyStrict, Workers: 1}
		ex := &explore.Explorer{Bound: bound, MaxExecs: 20000, Stop: r.Expired}
		ex.Exec = func(run *explore.Run) {
			env := buildSched(c)
			w := env.W
			taken := w.AttachFaultsOpt(run, func(cl *world.Call) bool { return cl.Verb == "get" || cl.Verb == "list" }, false)
			out := env.runPass(explore.Replay(nil), 1)
			w.Client.Hook, w.CP.Hook = nil, nil
			l.Eval()
			l.Traces++
			var faults []string
			for _, f := range *taken {
				faults = append(faults, f.Call+"="+f.Fault)
			}
			if out.Err != nil {
				l.Outcome("read-faults: schedule-error")
				return
			}
			viol, placements := env.judgePlacements(out)
			if len(faults) > 0 {
				l.NontrivialH(ev.H(fmt.Sprintf("rf/%d/%v/%s", idx, faults, out.Digest)))
			}
			l.Outcome(fmt.Sprintf("read-faults: placed=%v", placements > 0))
			for _, v := range viol {
				l.Violation(v.Sig+" (while a read failed)", v.Msg+fmt.Sprintf("  [%s; failing reads %v]", c.String(), faults), map[string]any{"case": c, "faults": faults, "plan": run.Plan(), "outcome": out.Digest})
			}
		}
		ex.Explore()
		noteDiverged(l, ex, "read-faults")
		l.Transitions += int64(ex.Points)
	})
}

func countPlaced(out schedOutcome, existing bool) int {
	n := 0
	if existing {
		for _, en := range out.Results.ExistingNodes {
			n += len(en.Pods)
		}
	} else {
		for _, nc := range out.Results.NewNodeClaims {
			n += len(nc.Pods)
		}
	}
	return n
}
