package checks

import (
	"fmt"
	"os"
	"runtime/debug"
	"sort"
	"strings"

	corev1 "k8s.io/api/core/v1"

	v1 "sigs.k8s.io/karpenter/pkg/apis/v1"
	"sigs.k8s.io/karpenter/pkg/cloudprovider"
	"sigs.k8s.io/karpenter/pkg/controllers/provisioning/scheduling"
	"sigs.k8s.io/karpenter/pkg/operator/options"

	"verif/internal/enum"
	"verif/internal/ev"
	"verif/internal/explore"
	"verif/oracle"
	"verif/world"
)

// C17 — capacity reservations are never over-committed within one scheduling pass.

var c17Pools = []poolCfg{
	{"open", func() []*v1.NodePool { return []*v1.NodePool{world.NodePool("default")} }},
	{"w10:open | w0:open (shared reservations)", func() []*v1.NodePool {
		return []*v1.NodePool{world.NodePool("first", weight(10)), world.NodePool("second")}
	}},
	{"w10:zone-a | w0:open", func() []*v1.NodePool {
		return []*v1.NodePool{world.NodePool("za", weight(10), reqsMod(oracle.R(corev1.LabelTopologyZone, corev1.NodeSelectorOpIn, "a"))), world.NodePool("open")}
	}},
	// the heavier pool can use the reservations, the lighter one is on-demand only: a pod that is compatible with exhausted
	// reserved capacity of the heavier pool must be deferred, not placed on the lighter pool
	{"w10:open | w0:on-demand-only", func() []*v1.NodePool {
		return []*v1.NodePool{world.NodePool("first", weight(10)), world.NodePool("fallback", reqsMod(oracle.R(v1.CapacityTypeLabelKey, corev1.NodeSelectorOpIn, "on-demand")))}
	}},
	{"w10:only-l | w0:only-m", func() []*v1.NodePool {
		return []*v1.NodePool{world.NodePool("pl", weight(10), reqsMod(oracle.R(corev1.LabelInstanceTypeStable, corev1.NodeSelectorOpIn, "l"))), world.NodePool("pm", reqsMod(oracle.R(corev1.LabelInstanceTypeStable, corev1.NodeSelectorOpIn, "m")))}
	}},
}

var c17Catalogs = map[string][]world.ITSpec{
	"K3": catalogs["K3"],
	// r1 shared by m and l in zone a with DIFFERENT advertised capacities (manager must take the minimum), r2 exhausted
	"K3b": {{Name: "m", CPU: 4, MemGi: 8, Pods: 3, Offers: []world.OfSpec{{Zone: "a", CT: "reserved", Price: 0.01, Available: true, RID: "r1", ResCap: 2}, of("a", "on-demand", 2), of("b", "spot", 1.1)}},
		{Name: "l", CPU: 8, MemGi: 16, Pods: 3, Offers: []world.OfSpec{{Zone: "a", CT: "reserved", Price: 0.02, Available: true, RID: "r1", ResCap: 1}, {Zone: "b", CT: "reserved", Price: 0.02, Available: false, RID: "r2", ResCap: 0}, of("a", "on-demand", 4), of("b", "on-demand", 4.1)}}},
}

var c17Shapes = []podShape{
	{name: "small", cpu: 500},
	{name: "medium", cpu: 2500},
	{name: "large", cpu: 5000},
	{name: "zone-a-selector", cpu: 2500, mods: []func(*corev1.Pod){sel(corev1.LabelTopologyZone, "a")}},
	{name: "zone-b-selector-large", cpu: 5000, mods: []func(*corev1.Pod){sel(corev1.LabelTopologyZone, "b")}},
	{name: "on-demand-selector", cpu: 2500, mods: []func(*corev1.Pod){sel(v1.CapacityTypeLabelKey, "on-demand")}},
	{name: "reserved-selector", cpu: 2500, mods: []func(*corev1.Pod){sel(v1.CapacityTypeLabelKey, "reserved")}},
	{name: "ct-notin-spot-large", cpu: 5000, mods: []func(*corev1.Pod){requiredTerms([]corev1.NodeSelectorRequirement{nsr(v1.CapacityTypeLabelKey, corev1.NodeSelectorOpNotIn, "spot")})}},
	{name: "prefers-zone-b", cpu: 2500, mods: []func(*corev1.Pod){preferred(10, nsr(corev1.LabelTopologyZone, corev1.NodeSelectorOpIn, "b"))}},
	// a pod that fits both types, and one that NARROWS the NodeClaim it joins to a single type after that NodeClaim
	// reserved through the offerings of both (so some same-id reservations must be handed back, others kept)
	{name: "mid-large", cpu: 3500},
	{name: "type-l-selector", cpu: 3000, mods: []func(*corev1.Pod){sel(corev1.LabelInstanceTypeStable, "l")}},
}

func resCap(cat []world.ITSpec) map[string]int {
	out := map[string]int{}
	for _, t := range cat {
		for _, o := range t.Offers {
			if o.CT != "reserved" {
				continue
			}
			if cur, ok := out[o.RID]; !ok || o.ResCap < cur {
				out[o.RID] = o.ResCap
			}
		}
	}
	return out
}

func (env *SchedEnv) judgeReservations(out schedOutcome) (viol []c01Violation, reservedClaims int) {
	caps := resCap(env.Catalog)
	holders := map[string][]string{}
	for j, snc := range out.Results.NewNodeClaims {
		if j >= len(out.Created) || out.Created[j] == nil {
			continue
		}
		nc := out.Created[j]
		rids, hasRID := reqValues(nc.Spec.Requirements, cloudprovider.ReservationIDLabel)
		launches := env.launchesFor(nc)
		if hasRID {
			reservedClaims++
			for _, id := range rids {
				holders[id] = append(holders[id], nc.Name)
			}
			// pinned to reserved capacity with exactly those ids
			for _, ct := range []string{"on-demand", "spot"} {
				if oracle.SatAll(nc.Spec.Requirements, v1.CapacityTypeLabelKey, true, ct) {
					viol = append(viol, c01Violation{"reservation: holder not pinned to reserved capacity", fmt.Sprintf("NodeClaim %s holds reservations %v but its request admits capacity-type %s (%s)", nc.Name, rids, ct, reqsCanon(nc.Spec.Requirements))})
				}
			}
			// every id must belong to an available reserved offering of a listed type that the rest of the request admits
			for _, id := range rids {
				found := false
				for _, l := range launches {
					if l.O.CT == "reserved" && l.O.RID == id {
						found = true
					}
				}
				if !found {
					viol = append(viol, c01Violation{"reservation: id does not match a compatible available reserved offering", fmt.Sprintf("NodeClaim %s lists reservation %s but no available reserved offering of its instance types with that id is admitted by its request (%s)", nc.Name, id, reqsCanon(nc.Spec.Requirements))})
				}
			}
			for _, l := range launches {
				if l.O.CT != "reserved" || !contains(rids, l.O.RID) {
					viol = append(viol, c01Violation{"reservation: request admits a launch outside the held reservations", fmt.Sprintf("NodeClaim %s holds %v but may be launched as %s/%s/%s rid=%q", nc.Name, rids, l.T.Name, l.O.Zone, l.O.CT, l.O.RID)})
				}
			}
		} else {
			// a NodeClaim that holds no reservation must not be launchable into reserved capacity
			for _, l := range launches {
				if l.O.CT == "reserved" {
					viol = append(viol, c01Violation{"reservation: non-holder can launch into reserved capacity", fmt.Sprintf("NodeClaim %s holds no reservation but its request (%s) admits reserved offering %s/%s rid=%s (pods %s): silent fallback / unreserved use", nc.Name, reqsCanon(nc.Spec.Requirements), l.T.Name, l.O.Zone, l.O.RID, podNames(snc.Pods))})
					break
				}
			}
		}
	}
	for id, hs := range holders {
		if len(hs) > caps[id] {
			viol = append(viol, c01Violation{"reservation: over-committed", fmt.Sprintf("reservation %s has capacity %d but is held by %d NodeClaims %v", id, caps[id], len(hs), hs)})
		}
	}
	// strict mode: deferred pods carry the reserved-offering error kind (never a plain failure that would trigger relaxation)
	for p, err := range out.Results.PodErrors {
		if scheduling.IsReservedOfferingError(err) {
			if o := env.original(p.Name); o != nil && o.Spec.NodeSelector[v1.CapacityTypeLabelKey] == "on-demand" {
				viol = append(viol, c01Violation{"reservation: on-demand-only pod deferred for reserved capacity", fmt.Sprintf("pod %s selects on-demand but was deferred with a reserved-offering error", p.Name)})
			}
		}
	}
	return viol, reservedClaims
}

func init() {
	register("C17", "exploration", func(r *ev.Rec) {
		bsz := 3
		cats := []string{"K3", "K3b"}
		if r.Tier == "thorough" {
			bsz = 4
		}
		bl := batches(len(c17Shapes), bsz)
		pols := []options.PreferencePolicy{options.PreferencePolicyRespect, options.PreferencePolicyIgnore}
		r.Rule = fmt.Sprintf("reservation part: catalogs %v with reserved offerings (ids shared across instance types and NodePools, differing advertised capacities, one exhausted) x %d NodePool sets x all pod batches of <=%d from %d shapes x 2 preference policies, feature gate on, provisioning (strict) mode, candidate-evaluation orders with 2 workers and <=2 deviations (enough for a later template to complete before an earlier one); "+
			"oracle on the created NodeClaims: holders per reservation id <= min advertised capacity; a holder admits only reserved launches with exactly its ids; a non-holder admits no reserved launch; the set of pods deferred for exhausted reserved capacity is the same under every completion order; no panic from the manager's guards. "+
			"non-trivial = distinct (case, outcome) with at least one NodeClaim holding a reservation or a deferred pod", cats, len(c17Pools), bsz, len(c17Shapes))
		r.Assumptions = []string{"fallback mode (used by disruption simulations only) is exercised through C06/C18 worlds, not here"}
		savedP, savedS, savedC := poolCfgs, podShapes, catalogs
		defer func() { poolCfgs, podShapes, catalogs = savedP, savedS, savedC }()
		poolCfgs, podShapes, catalogs = c17Pools, c17Shapes, c17Catalogs
		n := enum.Size(len(bl), len(cats), len(c17Pools), len(pols))
		enum.Run(r, n, func(idx int64, l *ev.Local) {
			d := enum.Odo(idx, len(bl), len(cats), len(c17Pools), len(pols))
			c := SchedCase{Batch: bl[d[0]], Catalog: cats[d[1]], Pool: d[2], Nodes: 0, Pref: pols[d[3]], MinV: options.MinValuesPolicyStrict, Workers: 2, Reserved: true}
			// two deviations: a LATER template completing before an EARLIER one needs "pull the next piece first" and then
			// "complete the later piece first"
			ex := &explore.Explorer{Bound: 2, MaxExecs: 2000}
			var baseDeferred *string // pods deferred with a reserved-offering error under the default (in-order) completion
			ex.Exec = func(run *explore.Run) {
				defer func() {
					if p := recover(); p != nil {
						l.Violation("reservation: scheduler panicked", fmt.Sprintf("panic: %v  [%s]", p, c.String()), map[string]any{"case": c, "stack": string(debug.Stack())})
					}
				}()
				env := buildSched(c)
				out := env.runPass(run, 2)
				l.Eval()
				l.Traces++
				if out.Err != nil {
					l.Outcome("schedule-error")
					return
				}
				viol, holders := env.judgeReservations(out)
				pv, _ := env.judgePlacements(out)
				viol = append(viol, pv...)
				deferred := 0
				var deferredNames []string
				for p, e := range out.Results.PodErrors {
					if scheduling.IsReservedOfferingError(e) {
						deferred++
						deferredNames = append(deferredNames, p.Name)
					}
				}
				sort.Strings(deferredNames)
				dn := strings.Join(deferredNames, ",")
				if only := os.Getenv("C17_ONLY"); only != "" && strings.Contains(c.String(), only) {
					fmt.Printf("C17 %s\n   choices=%v deferred=[%s] => %s\n", c.String(), run.Choices(), dn, out.Digest)
				}
				if baseDeferred == nil {
					baseDeferred = &dn
				} else if dn != *baseDeferred {
					viol = append(viol, c01Violation{"reservation: strict-mode deferral depends on the completion order of the template evaluation", fmt.Sprintf("with templates completing in order the pods deferred for exhausted reserved capacity are [%s]; under completion order %v they are [%s] (a deferred pod was silently placed elsewhere, or vice versa)", *baseDeferred, run.Choices(), dn)})
				}
				if holders > 0 || deferred > 0 {
					l.NontrivialH(ev.H(fmt.Sprintf("%d/%s", idx, out.Digest)))
				}
				l.Outcome(fmt.Sprintf("holders=%d deferred=%v", holders, deferred > 0))
				for _, v := range viol {
					l.Violation(v.Sig, v.Msg+"  ["+c.String()+"]", map[string]any{"case": c, "choices": run.Choices(), "outcome": out.Digest})
				}
				if idx%1013 == 11 && holders > 0 {
					l.Sample(map[string]any{"case": c.String(), "outcome": out.Digest, "deferred_pods": deferred})
				}
			}
			ex.Explore()
			noteDiverged(l, ex, "prefix")
			l.Transitions += int64(ex.Points)
		})
		poolCfgs, podShapes, catalogs = savedP, savedS, savedC
		c17DRA(r)
		c17DeviceTracker(r)
	})
}
