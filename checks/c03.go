package checks

import (
	"fmt"
	"os"
	"sort"
	"strings"

	corev1 "k8s.io/api/core/v1"
	"k8s.io/apimachinery/pkg/api/resource"
	"sigs.k8s.io/controller-runtime/pkg/client"

	v1 "sigs.k8s.io/karpenter/pkg/apis/v1"
	"sigs.k8s.io/karpenter/pkg/controllers/disruption"
	"sigs.k8s.io/karpenter/pkg/controllers/nodeclaim/lifecycle"
	"sigs.k8s.io/karpenter/pkg/controllers/state"
	staticdeprovisioning "sigs.k8s.io/karpenter/pkg/controllers/static/deprovisioning"
	staticprovisioning "sigs.k8s.io/karpenter/pkg/controllers/static/provisioning"
	"sigs.k8s.io/karpenter/pkg/operator/options"
	"sigs.k8s.io/karpenter/pkg/state/nodepoolhealth"

	"verif/internal/enum"
	"verif/internal/ev"
	"verif/internal/explore"
	"verif/world"
)

// C03 — NodePool limits (dynamic pools) and static node caps.

// ---------------------------------------------------------------------------------------------------------------------
// Part A: dynamic pools, multi-round histories x every launch choice.

type c03Limit struct {
	name string
	mod  func(np *v1.NodePool)
	cpu  int64 // cores, 0 = unlimited
	mem  int64 // Gi, 0 = unlimited
	ext  map[string]int64 // extended resources, absent = unlimited
}

var c03Limits = []c03Limit{
	{"cpu=3", func(np *v1.NodePool) { np.Spec.Limits = v1.Limits{corev1.ResourceCPU: resource.MustParse("3")} }, 3, 0, nil},
	{"cpu=6", func(np *v1.NodePool) { np.Spec.Limits = v1.Limits{corev1.ResourceCPU: resource.MustParse("6")} }, 6, 0, nil},
	{"cpu=10", func(np *v1.NodePool) { np.Spec.Limits = v1.Limits{corev1.ResourceCPU: resource.MustParse("10")} }, 10, 0, nil},
	{"memory=12Gi", func(np *v1.NodePool) { np.Spec.Limits = v1.Limits{corev1.ResourceMemory: resource.MustParse("12Gi")} }, 0, 12, nil},
	{"cpu=8,memory=8Gi", func(np *v1.NodePool) {
		np.Spec.Limits = v1.Limits{corev1.ResourceCPU: resource.MustParse("8"), corev1.ResourceMemory: resource.MustParse("8Gi")}
	}, 8, 8, nil},
}

// KM: a compute-heavy and a memory-heavy shape — the type with the most cpu is NOT the type with the most memory, so
// "the largest instance type" is a different one per limited resource.
var catalogKM = []world.ITSpec{
	{Name: "c8", CPU: 8, MemGi: 8, Pods: 8, Offers: []world.OfSpec{of("a", "on-demand", 3), of("b", "on-demand", 3.1)}},
	{Name: "r4", CPU: 4, MemGi: 32, Pods: 8, Offers: []world.OfSpec{of("a", "on-demand", 2), of("b", "on-demand", 2.1)}},
}

func memGi(n int64) func(*corev1.Pod) {
	return func(p *corev1.Pod) {
		p.Spec.Containers[0].Resources.Requests[corev1.ResourceMemory] = resource.MustParse(fmt.Sprintf("%dGi", n))
	}
}

func c03Dynamic(r *ev.Rec) {
	shapes := []string{"small", "medium", "large", "zone-b-selector-large", "hostport-8080"}
	rounds, maxLaunch := 2, 3
	if r.Tier == "thorough" {
		rounds, maxLaunch = 3, 4
	}
	var bl [][]int
	for _, b := range batches(len(shapes), 2) {
		m := make([]int, len(b))
		for i, x := range b {
			m[i] = shapeIdx(shapes[x])
		}
		bl = append(bl, m)
	}
	existing := []int{0, 1} // no node / one initialized m node with a pod
	cats := []string{"K1", "K4"}
	// memory-shaped worlds: catalog KM, pods that need 6Gi each (one per c8, several per r4), memory / cpu limits
	savedShapes, savedCats := podShapes, catalogs
	podShapes = append(append([]podShape{}, podShapes...), podShape{name: "mem-heavy-3cpu-6Gi", cpu: 3000, mods: []func(*corev1.Pod){memGi(6)}})
	catalogs = map[string][]world.ITSpec{"KM": catalogKM}
	for k, v := range savedCats {
		catalogs[k] = v
	}
	defer func() { podShapes, catalogs = savedShapes, savedCats }()
	mh, sm := len(podShapes)-1, shapeIdx("small")
	kmLimits := []c03Limit{
		{"memory=48Gi", func(np *v1.NodePool) { np.Spec.Limits = v1.Limits{corev1.ResourceMemory: resource.MustParse("48Gi")} }, 0, 48, nil},
		{"memory=40Gi", func(np *v1.NodePool) { np.Spec.Limits = v1.Limits{corev1.ResourceMemory: resource.MustParse("40Gi")} }, 0, 40, nil},
		{"cpu=12", func(np *v1.NodePool) { np.Spec.Limits = v1.Limits{corev1.ResourceCPU: resource.MustParse("12")} }, 12, 0, nil},
	}
	type dynCase struct {
		batch []int
		cat   string
		lim   c03Limit
		ex    int
		// stage the launched nodes are brought to before the next round ("" = initialized), and the shape of the late pod
		stage string
		late  string
	}
	var cases []dynCase
	for _, b := range bl {
		for _, c := range cats {
			for _, lm := range c03Limits {
				for _, e := range existing {
					cases = append(cases, dynCase{batch: b, cat: c, lim: lm, ex: e})
				}
			}
		}
	}
	for _, b := range [][]int{{mh}, {mh, mh}, {mh, mh, mh}, {mh, mh, sm}, {mh, sm, sm}} {
		for _, lm := range kmLimits {
			cases = append(cases, dynCase{batch: b, cat: "KM", lim: lm})
		}
	}
	// a limit on an EXTENDED resource, with the launched node stopping at a stage in which the kubelet reports that
	// resource as absent or as an explicit 0 (device plugin not up yet) when the next gpu pod arrives
	gpuLim := c03Limit{name: "example.com/gpu=1", mod: func(np *v1.NodePool) { np.Spec.Limits = v1.Limits{"example.com/gpu": resource.MustParse("1")} }, ext: map[string]int64{"example.com/gpu": 1}}
	for _, st := range []string{"", "registered", "registered-explicit-zero-ext", "node-unregistered-explicit-zero-ext", "node-unregistered-no-hostname-zero-ext"} {
		cases = append(cases, dynCase{batch: []int{shapeIdx("gpu")}, cat: "K4", lim: gpuLim, stage: st, late: "gpu"})
	}
	enum.Run(r, int64(len(cases)), func(idx int64, l *ev.Local) {
		dc := cases[idx]
		lim := dc.lim
		ex := &explore.Explorer{Bound: 0, MaxExecs: 3000}
		ex.Exec = func(run *explore.Run) {
			saved := poolCfgs
			poolCfgs = append([]poolCfg{}, saved...)
			poolCfgs = append(poolCfgs, poolCfg{"limited", func() []*v1.NodePool { return []*v1.NodePool{world.NodePool("default", lim.mod)} }})
			defer func() { poolCfgs = saved }()
			c := SchedCase{Batch: dc.batch, Catalog: dc.cat, Pool: len(poolCfgs) - 1, Nodes: dc.ex, Pref: options.PreferencePolicyRespect, MinV: options.MinValuesPolicyStrict, Workers: 1}
			env := buildSched(c)
			w := env.W
			ctrl := lifecycle.NewController(w.Clock, w.Client, w.CP, w.Rec, nodepoolhealth.NewState(), nil)
			var hist []string
			baseCPU, baseMem := int64(-1), int64(-1)
			check := func(when string) {
				var cpu, mem int64
				ext := map[string]int64{}
				for _, inst := range w.CP.Live() {
					nc := w.GetNodeClaim(inst.NodeClaim.Name)
					if nc == nil || nc.DeletionTimestamp != nil || nc.Labels[v1.NodePoolLabelKey] != "default" {
						continue
					}
					t := pickType(env.Catalog, nc.Labels[corev1.LabelInstanceTypeStable])
					cpu += int64(t.CPU)
					mem += int64(t.MemGi)
					for k, v := range t.Ext {
						ext[k] += int64(v)
					}
				}
				for k, lv := range lim.ext {
					if baseCPU >= 0 && ext[k] > lv {
						l.Violation("NodePool resource limit exceeded: "+lim.name, fmt.Sprintf("%s: the pool's non-deleting nodes add up to %s=%d, limit %d  [%s history=%v]", when, k, ext[k], lv, c.String(), hist), map[string]any{"case": c, "history": hist, "choices": run.Choices()})
					}
				}
				if baseCPU < 0 {
					baseCPU, baseMem = cpu, mem // capacity that existed before Karpenter acted is not Karpenter's doing
					return
				}
				if (lim.cpu > 0 && cpu > lim.cpu && cpu > baseCPU) || (lim.mem > 0 && mem > lim.mem && mem > baseMem) {
					l.Violation("NodePool resource limit exceeded: "+lim.name, fmt.Sprintf("%s: the pool's non-deleting nodes add up to cpu=%d memory=%dGi, limits %s  [%s history=%v]", when, cpu, mem, lim.name, c.String(), hist), map[string]any{"case": c, "history": hist, "choices": run.Choices()})
				}
			}
			check("initial state")
			launched := 0
			for round := 0; round < rounds; round++ {
				calls := provisionerReconcile(w, fmt.Sprintf("r%d", round))
				created := 0
				for _, cl := range calls {
					if cl.Verb == "create" && cl.Kind == "NodeClaim" && cl.Err == "" {
						created++
					}
				}
				hist = append(hist, fmt.Sprintf("provision(created %d)", created))
				// a pass before launch must be a no-op (Synced gate) — the environment may run it
				if created > 0 && run.Choose("extra-pass-before-launch", 2, func(int) int { return 0 }) == 1 {
					extra := provisionerReconcile(w, fmt.Sprintf("r%dx", round))
					for _, cl := range extra {
						if cl.Verb == "create" {
							l.Violation("scheduling pass created NodeClaims while others were unlaunched", fmt.Sprintf("[%s history=%v]", c.String(), hist), nil)
						}
					}
					hist = append(hist, "provision-again-before-launch")
				}
				ncs := &v1.NodeClaimList{}
				must(w.Raw.List(w.Ctx, ncs))
				canon := func(nc *v1.NodeClaim) string {
					return reqsCanon(nc.Spec.Requirements) + "/" + fmt.Sprint(nc.Spec.Resources.Requests.Cpu().MilliValue())
				}
				sort.Slice(ncs.Items, func(i, j int) bool { return canon(&ncs.Items[i]) < canon(&ncs.Items[j]) })
				for j := range ncs.Items {
					nc := &ncs.Items[j]
					if nc.Status.ProviderID != "" {
						continue
					}
					k := len(w.CP.Permitted(nc))
					if k > maxLaunch {
						k = maxLaunch
					}
					if k == 0 {
						continue
					}
					pick := run.Choose("launch", k, func(int) int { return 0 })
					stage := dc.stage
					if stage == "" {
						stage = "initialized"
					}
					launch, ok := advance(w, ctrl, nc.Name, stage, pick)
					hist = append(hist, fmt.Sprintf("launch %s as %s ok=%v", nc.Name, launch, ok))
					launched++
					w.SyncCluster()
					check("after launching " + nc.Name)
				}
				w.SyncCluster()
				// pods that were placed bind to their nodes; optionally one more pod arrives
				if run.Choose("arrival", 2, func(int) int { return 0 }) == 1 {
					p := world.Pod(fmt.Sprintf("late%d", round), 2500)
					what := "a 2500m pod arrives"
					if dc.late != "" {
						sh := podShapes[shapeIdx(dc.late)]
						p = world.Pod(fmt.Sprintf("late%d", round), sh.cpu, sh.mods...)
						what = "a " + sh.name + " pod arrives"
					}
					w.Add(p)
					env.Pending = append(env.Pending, p)
					hist = append(hist, what)
				}
				w.SyncCluster()
			}
			l.Eval()
			l.Traces++
			if launched > 0 {
				l.NontrivialH(ev.H(fmt.Sprintf("dyn/%d/%v", idx, run.Choices())))
			}
			l.Outcome(fmt.Sprintf("dynamic launched=%d", min(launched, 4)))
			if idx%97 == 3 && launched > 1 {
				l.Sample(map[string]any{"case": c.String(), "limits": lim.name, "history": hist})
			}
		}
		ex.Explore()
		noteDiverged(l, ex, "dynamic-case")
		l.Transitions += int64(ex.Points)
		if ex.Capped {
			l.Outcome("dynamic-exploration-capped")
		}
	})
}

// ---------------------------------------------------------------------------------------------------------------------
// Part B: the real NodePoolState under every interleaving of the operation programs of concurrent reconciles.

type npsOp struct {
	name string
	do   func(s *state.NodePoolState, st *npsModel)
}

type npsModel struct {
	limit    int64
	granted  map[string]int64 // per thread
	created  int
	names    map[string]bool // NodeClaims written to the API so far
	viol     []string
}

func claim(name string, deleting bool) *v1.NodeClaim {
	nc := c11Claim(name, "static", "pid-"+name)
	if deleting {
		dt := metaT(world.Epoch)
		nc.DeletionTimestamp = &dt
	}
	return nc
}

// provisioning program: Reserve(limit, want); per granted slot: create ok -> UpdateNodeClaim(new, active) | create fails;
// then Release(1) — exactly what CreateNodeClaims does for static NodeClaims.
func provProgram(tid string, want int64, createFails bool) []npsOp {
	ops := []npsOp{{tid + ":Reserve", func(s *state.NodePoolState, m *npsModel) {
		g := s.ReserveNodeCount("static", m.limit, want)
		m.granted[tid] = g
		if g < 0 || g > want {
			// the callers slice and loop with the grant (StaticDrift: npCandidates[:grant]); a negative grant also GIVES BACK
			// somebody else's outstanding reservation
			m.viol = append(m.viol, fmt.Sprintf("ReserveNodeCount(limit=%d, want=%d) granted %d", m.limit, want, g))
		}
	}}}
	for i := int64(0); i < want; i++ {
		i := i
		ops = append(ops, npsOp{tid + ":Create", func(s *state.NodePoolState, m *npsModel) {
			if m.granted[tid] <= i || createFails {
				return
			}
			m.created++
			if m.names == nil {
				m.names = map[string]bool{}
			}
			m.names[fmt.Sprintf("%s-new%d", tid, i)] = true
			s.UpdateNodeClaim(claim(fmt.Sprintf("%s-new%d", tid, i), false), false)
		}}, npsOp{tid + ":Release", func(s *state.NodePoolState, m *npsModel) {
			if m.granted[tid] <= i {
				return
			}
			s.ReleaseNodeCount("static", 1)
		}})
	}
	return ops
}

func c03Seam(r *ev.Rec) {
	type scen struct {
		name    string
		limit   int64
		initial []string
		threads [][]npsOp
	}
	inf := func(name string, ops ...npsOp) []npsOp { return ops }
	cleanup := func(c string) npsOp {
		return npsOp{"informer:Cleanup(" + c + ")", func(s *state.NodePoolState, m *npsModel) { s.Cleanup(c) }}
	}
	deleting := func(c string) npsOp {
		return npsOp{"informer:Deleting(" + c + ")", func(s *state.NodePoolState, m *npsModel) { s.UpdateNodeClaim(claim(c, true), true) }}
	}
	pending := func(c string) npsOp {
		return npsOp{"queue:PendingDisruption(" + c + ")", func(s *state.NodePoolState, m *npsModel) { s.MarkNodeClaimPendingDisruption("static", c) }}
	}
	// the NodeClaim informer delivers the create event of a NodeClaim the provisioner has just written — possibly before
	// the provisioner itself has marked it and released its reservation (the claim is then counted twice for a moment)
	created := func(c string) npsOp {
		return npsOp{"informer:Created(" + c + ")", func(s *state.NodePoolState, m *npsModel) {
			if m.names[c] {
				s.UpdateNodeClaim(claim(c, false), false)
			}
		}}
	}
	lowerLimit := func(to int64) npsOp {
		return npsOp{fmt.Sprintf("user:LowerLimit(%d)", to), func(s *state.NodePoolState, m *npsModel) { m.limit = to }}
	}
	var scens []scen
	for _, fails := range []bool{false, true} {
		f := map[bool]string{false: "", true: " (create fails)"}[fails]
		scens = append(scens,
			scen{"provision 1 while the last claim is deleted and cleaned up" + f, 2, []string{"c1"}, [][]npsOp{provProgram("prov", 1, fails), inf("inf", deleting("c1"), cleanup("c1"))}},
			scen{"provision 1 from empty, concurrent drift replacement" + f, 2, []string{"c1"}, [][]npsOp{provProgram("prov", 1, fails), append([]npsOp{pending("c1")}, provProgram("drift", 1, false)...)}},
			scen{"two provisioners racing for the last slot" + f, 2, []string{"c1"}, [][]npsOp{provProgram("prov", 1, fails), provProgram("drift", 1, false), inf("inf", cleanup("c1"))}},
			scen{"provision 2 with limit 2 while a claim is cleaned up" + f, 2, nil, [][]npsOp{provProgram("prov", 2, fails), inf("inf", cleanup("prov-new0"))}},
			scen{"pending-disruption only, then cleanup of the last active" + f, 3, []string{"c1", "c2"}, [][]npsOp{append([]npsOp{pending("c1")}, provProgram("drift", 1, fails)...), inf("inf", deleting("c2"), cleanup("c2"))}},
			scen{"provision up to the limit, the informer sees the new claim before the release, StaticDrift reserves meanwhile" + f, 2, []string{"c1"}, [][]npsOp{provProgram("prov", 1, fails), inf("inf", created("prov-new0")), provProgram("drift", 1, false)}},
			scen{"the user lowers the node limit below the current count while a drift replacement is reserved" + f, 2, []string{"c1", "c2"}, [][]npsOp{{lowerLimit(1)}, provProgram("drift", 1, fails), inf("inf", deleting("c2"), cleanup("c2"))}},
		)
	}
	enum.Run(r, int64(len(scens)), func(idx int64, l *ev.Local) {
		sc := scens[idx]
		ex := &explore.Explorer{Bound: 99, MaxExecs: 200000}
		ex.Exec = func(run *explore.Run) {
			s := state.NewNodePoolState()
			m := &npsModel{limit: sc.limit, granted: map[string]int64{}}
			for _, c := range sc.initial {
				s.UpdateNodeClaim(claim(c, false), false)
			}
			pcs := make([]int, len(sc.threads))
			var hist []string
			crashed := ""
			for {
				var enabled []int
				for t := range sc.threads {
					if pcs[t] < len(sc.threads[t]) {
						enabled = append(enabled, t)
					}
				}
				if len(enabled) == 0 {
					break
				}
				t := enabled[run.Choose("thread", len(enabled), func(int) int { return 0 })]
				op := sc.threads[t][pcs[t]]
				pcs[t]++
				hist = append(hist, op.name)
				func() {
					defer func() {
						if p := recover(); p != nil {
							crashed = fmt.Sprintf("%v", p)
						}
					}()
					op.do(s, m)
				}()
				l.Transitions++
				if crashed != "" {
					l.Violation("NodePoolState bookkeeping panics: "+opClass(op.name), fmt.Sprintf("%s panicked (%s) after %v  [%s]", op.name, crashed, hist, sc.name), map[string]any{"scenario": sc.name, "ops": hist})
					break
				}
				for _, v := range m.viol {
					l.Violation("NodePoolState grants a count outside [0, wanted]", fmt.Sprintf("%s after %v  [%s]", v, hist, sc.name), map[string]any{"scenario": sc.name, "ops": hist})
				}
				m.viol = nil
				a, d, p := s.GetNodeCount("static")
				// grants outstanding (reserved but neither created nor released) + counted claims must fit the limit
				if int64(a+d+p) > sc.limit && m.limit == sc.limit {
					l.Violation("static node limit exceeded at the NodePoolState seam", fmt.Sprintf("active=%d deleting=%d pending=%d > limit %d after %v  [%s]", a, d, p, sc.limit, hist, sc.name), map[string]any{"scenario": sc.name, "ops": hist})
				}
				l.States++
			}
			l.Eval()
			l.Traces++
			l.Nontrivial("seam/" + sc.name + "/" + strings.Join(hist, ","))
			a, d, p := s.GetNodeCount("static")
			l.Outcome(fmt.Sprintf("seam final active=%d deleting=%d pending=%d", a, d, p))
			if run.Used > 2 && len(hist)%4 == 0 {
				l.Sample(map[string]any{"seam_scenario": sc.name, "interleaving": hist})
			}
		}
		ex.Explore()
		noteDiverged(l, ex, "prefix")
	})
}

func opClass(name string) string {
	if i := strings.Index(name, ":"); i >= 0 {
		name = name[i+1:]
	}
	if i := strings.Index(name, "("); i >= 0 {
		name = name[:i]
	}
	return name
}

// ---------------------------------------------------------------------------------------------------------------------
// Part C: protocol exploration with the real static controllers as cooperative threads.

type c03Proto struct {
	replicas int64
	limit    int64 // 0 = unset
	existing int
	env      string // "none", "user-deletes-c0", "replicas+1", "replicas-1"
	order    int    // rotation of the thread priority order
}

func (p c03Proto) String() string {
	return fmt.Sprintf("replicas=%d nodeLimit=%s existing=%d env=%s order=%d", p.replicas, map[bool]string{true: "unset", false: fmt.Sprint(p.limit)}[p.limit == 0], p.existing, p.env, p.order)
}

// c03ProtocolOnce runs every protocol scenario once with the default schedule (race pass: free-running threads).
func c03ProtocolOnce(r *ev.Rec) {
	c03BoundOverride = 0
	defer func() { c03BoundOverride = -1 }()
	c03Protocol(r)
}

var c03BoundOverride = -1

func c03Protocol(r *ev.Rec) {
	var scens []c03Proto
	for _, rep := range []int64{1, 2} {
		for _, lim := range []int64{0, rep, rep + 1} {
			for _, ex := range []int{int(rep) - 1, int(rep), int(rep) + 1} {
				if ex < 0 || (lim > 0 && int64(ex) > lim) {
					continue
				}
				for _, e := range []string{"none", "user-deletes-c0", "replicas+1", "replicas-1", "c0-drifted"} {
					if (e == "user-deletes-c0" || e == "c0-drifted") && ex == 0 {
						continue
					}
					if e == "replicas-1" && rep == 1 {
						continue
					}
					// keep the fan-out of CreateNodeClaims / of the deprovisioning deletes at 1 (see assumptions)
					if (e == "replicas+1" && int64(ex) < rep) || (e == "replicas-1" && int64(ex) > rep) || (e == "user-deletes-c0" && int64(ex) < rep) {
						continue
					}
					for o := 0; o < 5; o++ {
						scens = append(scens, c03Proto{rep, lim, ex, e, o})
					}
				}
			}
		}
	}
	bound := 1
	if r.Tier == "thorough" {
		bound = 2
	}
	if c03BoundOverride >= 0 {
		bound = c03BoundOverride
	}
	r.Extra["protocol_scenarios"] = len(scens)
	r.Extra["protocol_preemption_bound"] = bound
	enum.Run(r, int64(len(scens)), func(idx int64, l *ev.Local) {
		if only := os.Getenv("C03_ONLY"); only != "" && only != fmt.Sprint(idx) {
			return
		}
		sc := scens[idx]
		ex := &explore.Explorer{Bound: bound, MaxExecs: 100000, Stop: r.Expired}
		ex.Exec = func(run *explore.Run) {
			w := world.New(world.Options{StaticCapacity: true})
			w.CP.Catalog[""] = world.BuildCatalog(K1)
			np := world.NodePool("static", func(np *v1.NodePool) {
				np.Spec.Replicas = &sc.replicas
				np.Spec.Template.Spec.Requirements = append(np.Spec.Template.Spec.Requirements, v1.NodeSelectorRequirementWithMinValues{Key: corev1.LabelInstanceTypeStable, Operator: corev1.NodeSelectorOpIn, Values: []string{"m"}})
				if sc.limit > 0 {
					np.Spec.Limits = v1.Limits{"nodes": resource.MustParse(fmt.Sprint(sc.limit))}
				}
			})
			w.Add(world.NodeClass(), np)
			for i := 0; i < sc.existing; i++ {
				w.BuildNode(world.NodeSpec{Name: fmt.Sprintf("c%d", i), Pool: "static", Type: K1[1], Offer: K1[1].Offers[2]})
				// node i hosts i pods: the deprovisioner's preference (empty first, then lowest disruption cost) is a total order
				for k := 0; k < i; k++ {
					w.Add(world.Pod(fmt.Sprintf("w%d-%d", i, k), 200, world.Bound(fmt.Sprintf("c%d", i)), world.OwnedBy("ReplicaSet", "rs")))
				}
			}
			if sc.env == "c0-drifted" {
				nc := w.GetNodeClaim("nc-c0")
				nc.StatusConditions().SetTrueWithReason(v1.ConditionTypeDrifted, "NodePoolDrifted", "NodePoolDrifted")
				w.EnvUpdate(nc)
			}
			w.SyncCluster()
			w.Cluster.Synced(w.Ctx)
			denv := &DEnv{W: w, PIDs: map[string]string{}, Pods: map[string]*corev1.Pod{}}
			denv.Queue = disruption.NewQueue(w.Client, w.Rec, w.Cluster, w.Clock, w.Prov)
			var cmds []*disruption.Command
			prov := staticprovisioning.NewController(w.Client, w.Cluster, w.Rec, w.CP, w.Prov, w.Clock, w.DeviceAlloc, w.VPods)
			deprov := staticdeprovisioning.NewController(w.Client, w.Cluster, w.CP, w.Clock, w.Rec)
			life := lifecycle.NewController(w.Clock, w.Client, w.CP, w.Rec, nodepoolhealth.NewState(), nil)
			inf := w.NewInformers(w.Cluster)
			getNP := func() *v1.NodePool {
				cur := &v1.NodePool{}
				must(w.Raw.Get(w.Ctx, client.ObjectKey{Name: "static"}, cur))
				return cur
			}
			limitNow := func() int64 {
				if lim, ok := getNP().Spec.Limits["nodes"]; ok {
					return lim.Value()
				}
				return 0
			}
			countNC := func() (total, live int) {
				ncs := &v1.NodeClaimList{}
				must(w.Raw.List(w.Ctx, ncs))
				for i := range ncs.Items {
					if ncs.Items[i].Labels[v1.NodePoolLabelKey] != "static" {
						continue
					}
					total++
					if ncs.Items[i].DeletionTimestamp == nil {
						live++
					}
				}
				return
			}
			var viol []c01Violation
			th := explore.NewThreads(run)
			th.Free = c03Free
			w.Client.Sched = th.Yield
			// ... and right after a NodeClaim write returned: the window in which the API already has the object while the
			// writer has not yet updated its in-memory bookkeeping (cluster cache, reservation) is a scheduling point too
			w.Client.SchedAfter = func(label string) {
				if strings.Contains(label, "NodeClaim") && !strings.HasPrefix(label, "get ") && !strings.HasPrefix(label, "list ") {
					th.Yield("after " + label)
				}
			}
			taken := &[]world.Injected{}
			if !c03Free {
				w.AmbiguousWrites = os.Getenv("VERIF_AMBIG") != ""
				taken = w.AttachFaults(run, func(c *world.Call) bool { return c.Verb == "create" && c.Kind == "NodeClaim" })
			}
			th.OnPoint = func() {
				if lim := limitNow(); lim > 0 {
					if total, _ := countNC(); int64(total) > lim {
						viol = append(viol, c01Violation{"static NodePool exceeds its node limit", fmt.Sprintf("%d NodeClaims exist, node limit %d", total, lim)})
					}
				}
			}
			delivered := map[string]string{}
			deliverDirty := func() {
				ncs := &v1.NodeClaimList{}
				must(w.Raw.List(w.Ctx, ncs))
				seen := map[string]bool{}
				var keys []string
				for i := range ncs.Items {
					seen[ncs.Items[i].Name] = true
					if delivered[ncs.Items[i].Name] != ncs.Items[i].ResourceVersion {
						keys = append(keys, ncs.Items[i].Name)
						delivered[ncs.Items[i].Name] = ncs.Items[i].ResourceVersion
					}
				}
				for n := range delivered {
					if !seen[n] {
						keys = append(keys, n)
						delete(delivered, n)
					}
				}
				sort.Strings(keys)
				for _, k := range keys {
					th.Yield("informer delivers NodeClaim/" + k)
					if c03Free {
						_ = inf.DeliverLoud("NodeClaim", "", k) // (Quiet is a plain counter: not touched while threads run freely)
						continue
					}
					w.Client.Quiet++
					_ = inf.Deliver("NodeClaim", "", k)
					w.Client.Quiet--
				}
			}
			for i := 0; i < sc.existing; i++ {
				if nc := w.GetNodeClaim(fmt.Sprintf("nc-c%d", i)); nc != nil {
					delivered[nc.Name] = nc.ResourceVersion
				}
			}
			type thr struct {
				name string
				fn   func()
			}
			threads := []thr{
				{"provision", func() { _, _ = prov.Reconcile(w.Ctx, getNP()) }},
				{"informer", func() {
					for i := 0; i < 3; i++ {
						deliverDirty()
						th.YieldIdle("informer idle")
					}
				}},
				{"deprovision", func() { _, _ = deprov.Reconcile(w.Ctx, getNP()) }},
				{"environment", func() {
					switch sc.env {
					case "user-deletes-c0":
						th.Yield("user deletes nc-c0")
						if nc := w.GetNodeClaim("nc-c0"); nc != nil {
							w.EnvDelete(nc)
							if n := w.GetNode("c0"); n != nil {
								w.EnvDelete(n)
							}
						}
					case "replicas+1", "replicas-1":
						th.Yield("replicas change")
						cur := getNP()
						nr := *cur.Spec.Replicas + map[string]int64{"replicas+1": 1, "replicas-1": -1}[sc.env]
						cur.Spec.Replicas = &nr
						w.EnvUpdate(cur)
					}
				}},
				{"provision-again", func() { _, _ = prov.Reconcile(w.Ctx, getNP()) }},
			}
			if sc.env == "c0-drifted" {
				threads = append(threads, thr{"disruption(StaticDrift)", func() {
					c, _ := denv.round("StaticDrift")
					cmds = append(cmds, c...)
				}})
			}
			for i := range threads {
				t := threads[(i+sc.order)%len(threads)]
				th.Go(t.name, t.fn)
			}
			th.Run()
			if c03Debug != nil {
				c03Debug(sc.String(), run.Choices(), th.Trace)
			}
			if os.Getenv("C03_TRACE") != "" {
				fmt.Fprintf(os.Stderr, "TRACE %v panics=%d\n", th.Trace, len(th.Panics))
			}
			w.Client.Sched, w.Client.SchedAfter = nil, nil
			w.Client.Hook, w.CP.Hook = nil, nil
			for _, p := range th.Panics {
				viol = append(viol, c01Violation{"static bookkeeping crashed a controller", firstLines(p, 3)})
			}
			// ---- settle, fault-free and sequential
			settle := func() {
				for i := 0; i < 8; i++ {
					before := w.DigestAPI()
					// finalization of deleting claims completes
					ncs := &v1.NodeClaimList{}
					must(w.Raw.List(w.Ctx, ncs))
					for j := range ncs.Items {
						nc := &ncs.Items[j]
						if nc.DeletionTimestamp != nil {
							if n := w.GetNode(strings.TrimPrefix(nc.Name, "nc-")); n != nil {
								w.EnvDelete(n)
							}
							w.EnvDelete(nc)
						} else if nc.Status.ProviderID == "" {
							_, _ = advance(w, life, nc.Name, "initialized", 0)
						}
					}
					w.SyncCluster()
					func() {
						defer func() {
							if p := recover(); p != nil {
								viol = append(viol, c01Violation{"static bookkeeping crashed a controller", fmt.Sprintf("during settle: %v", p)})
							}
						}()
						for _, cmd := range denv.Queue.GetCommands() {
							first := cmd.Candidates[0].NodeClaim
							obj := w.GetNodeClaim(first.Name)
							if obj == nil {
								obj = first
							}
							_, _ = denv.Queue.Reconcile(w.Ctx, obj)
							w.SyncCluster()
						}
						_, _ = prov.Reconcile(w.Ctx, getNP())
						w.SyncCluster()
						_, _ = deprov.Reconcile(w.Ctx, getNP())
						w.SyncCluster()
					}()
					th.OnPoint()
					if w.DigestAPI() == before {
						break
					}
				}
			}
			settle()
			_, live := countNC()
			want := *getNP().Spec.Replicas
			if lim := limitNow(); lim > 0 && want > lim {
				want = lim
			}
			if int64(live) != want {
				viol = append(viol, c01Violation{"static NodePool does not settle at its replica count", fmt.Sprintf("after settling %d NodeClaims are live, replicas (capped by the node limit) = %d", live, want)})
			}
			l.Eval()
			l.Traces++
			l.States += int64(th.Steps)
			var faults []string
			for _, f := range *taken {
				faults = append(faults, f.Call+"="+f.Fault)
			}
			l.Nontrivial("proto/" + sc.String() + "/" + strings.Join(th.Trace, ",") + strings.Join(faults, ","))
			l.Outcome(fmt.Sprintf("protocol settled live=%d", live))
			seen := map[string]bool{}
			for _, v := range viol {
				if seen[v.Sig] {
					continue
				}
				seen[v.Sig] = true
				l.Violation(v.Sig, fmt.Sprintf("%s  [%s schedule=%v faults=%v]", v.Msg, sc.String(), th.Trace, faults), map[string]any{"scenario": sc.String(), "choices": run.Choices(), "schedule": th.Trace, "faults": faults})
			}
			if run.Used == bound && len(th.Trace)%7 == 0 {
				l.Sample(map[string]any{"protocol_scenario": sc.String(), "schedule": th.Trace, "faults": faults, "live_after_settle": live})
			}
		}
		ex.Explore()
		noteDiverged(l, ex, "prefix")
		l.Transitions += int64(ex.Points)
		if ex.Capped {
			l.Outcome("protocol-exploration-capped")
			r.Exhaustive = false
		}
	})
}

var c03Debug func(sc string, choices []int, trace []string)

// c03Free: the protocol threads run as free goroutines (race-detector pass only)
var c03Free bool

func firstLines(s string, n int) string {
	lines := strings.Split(s, "\n")
	if len(lines) > n {
		lines = lines[:n]
	}
	return strings.Join(lines, " | ")
}

func init() {
	register("C03", "model_checking", func(r *ev.Rec) {
		r.Rule = "A (dynamic pools): pod batches <=2 x catalogs x 5 limit sets x {no node, one node}, plus a catalog whose largest-cpu type is not its largest-memory type x batches <=3 of 6Gi pods x memory / cpu limits, plus a limit on an extended resource with the launched node stopping at every not-yet-initialized stage (resource absent or an explicit 0) when the next gpu pod arrives: 2/3 rounds of the real Provisioner.Reconcile (batcher, Synced gate), every NodeClaim launched through the real lifecycle controller as EVERY permitted (type, offering) (up to 3/4 per claim, one launch of every permitted instance type first), optional extra pass before launch and optional late pod; after every launch the capacity of the pool's non-deleting nodes (from the provider's instance table) must be within the limits. " +
			"B (seam): the real NodePoolState under EVERY interleaving of the operation programs of concurrent reconciles (provisioning = Reserve; per slot Create ok|fail then Release; informer = Deleting/Cleanup; queue = PendingDisruption + replacement provisioning): no panic, counted claims never exceed the limit. " +
			"C (protocol): the real static provisioning (twice) and deprovisioning controllers, the real NodeClaim informer and an environment thread (user deletes a NodeClaim / replicas +-1) and, when a NodeClaim is drifted, the real disruption controller restricted to StaticDrift with the real orchestration queue, as cooperative threads with scheduling points at every API call, all schedules with <=1/2 preemptions x a failing NodeClaim create, replicas {1,2} x node limit {unset, replicas, replicas+1} x existing {r-1,r,r+1}; invariant at every scheduling point: NodeClaims <= node limit; no controller panic; after a fault-free settle the live count equals the replica count. states = scheduling points / seam states visited; non-trivial = distinct executions"
		r.Assumptions = []string{"fan-out of CreateNodeClaims is 1 in the protocol part (one NodeClaim per reconcile) so that the child goroutine is attributed to its thread", "settling plays finalization of deleting NodeClaims and kubelet bring-up of new ones"}
		if os.Getenv("C03_ONLY") == "" { // C03_ONLY=<scenario index>: debug run of one protocol scenario
			c03Dynamic(r)
			c03Seam(r)
		}
		c03Protocol(r)
	})
}
