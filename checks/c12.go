package checks

import (
	"fmt"
	"math"
	"sort"
	"strings"

	corev1 "k8s.io/api/core/v1"

	v1 "sigs.k8s.io/karpenter/pkg/apis/v1"
	"sigs.k8s.io/karpenter/pkg/scheduling"

	"verif/internal/enum"
	"verif/internal/ev"
	"verif/oracle"
)

// C12 — the requirement algebra against set semantics, exhaustively over a closed atom alphabet.

type atom struct {
	r   oracle.Req
	cls string // operator class used in violation signatures
}

func c12Atoms(key string, vals []string, bounds []string, minValues []*int) []atom {
	var out []atom
	add := func(op corev1.NodeSelectorOperator, mv *int, vs ...string) {
		out = append(out, atom{r: oracle.Req{Key: key, Operator: op, Values: vs, MinValues: mv}, cls: string(op)})
	}
	for _, mv := range minValues {
		for i := range vals {
			add(corev1.NodeSelectorOpIn, mv, vals[i])
			add(corev1.NodeSelectorOpNotIn, mv, vals[i])
			for j := i + 1; j < len(vals); j++ {
				add(corev1.NodeSelectorOpIn, mv, vals[i], vals[j])
				add(corev1.NodeSelectorOpNotIn, mv, vals[i], vals[j])
			}
		}
		add(corev1.NodeSelectorOpExists, mv)
		add(corev1.NodeSelectorOpDoesNotExist, mv)
		for _, b := range bounds {
			add(corev1.NodeSelectorOpGt, mv, b)
			add(corev1.NodeSelectorOpLt, mv, b)
			add(v1.NodeSelectorOpGte, mv, b)
			add(v1.NodeSelectorOpLte, mv, b)
		}
	}
	return out
}

func mk(a atom) *scheduling.Requirement {
	return scheduling.NewRequirementWithFlexibility(a.r.Key, a.r.Operator, a.r.MinValues, append([]string{}, a.r.Values...)...)
}

func clsOf(as ...atom) string {
	c := make([]string, len(as))
	for i, a := range as {
		c[i] = a.cls
		if len(a.r.Values) == 1 && (a.r.Values[0] == fmt.Sprint(math.MaxInt64) || a.r.Values[0] == fmt.Sprint(math.MinInt64)) {
			c[i] += "(extreme)"
		}
	}
	sort.Strings(c)
	return strings.Join(c, "&")
}

func maxPtr(ps ...*int) *int {
	var m *int
	for _, p := range ps {
		if p != nil && (m == nil || *p > *m) {
			m = p
		}
	}
	return m
}

func eqPtr(a, b *int) bool {
	if a == nil || b == nil {
		return a == b
	}
	return *a == *b
}

func admitsImpl(r *scheduling.Requirement, W []string) string {
	var sb strings.Builder
	for _, v := range W {
		if r.Has(v) {
			sb.WriteString(v)
			sb.WriteByte(',')
		}
	}
	return sb.String()
}

func admitsRef(W []string, as ...atom) string {
	var sb strings.Builder
	for _, v := range W {
		ok := true
		for _, a := range as {
			if !oracle.Sat(a.r, true, v) {
				ok = false
				break
			}
		}
		if ok {
			sb.WriteString(v)
			sb.WriteByte(',')
		}
	}
	return sb.String()
}

func atomsStr(as ...atom) string {
	s := make([]string, len(as))
	for i, a := range as {
		s[i] = oracle.ReqString(a.r)
	}
	return strings.Join(s, "  ∩  ")
}

func init() {
	register("C12", "exploration", func(r *ev.Rec) {
		vals := []string{"0", "1", "2", "3", "a", "-1"}
		bounds := []string{"-1", "0", "1", "2", "3", fmt.Sprint(math.MaxInt64), fmt.Sprint(math.MinInt64)}
		two, one := 2, 1
		mvs := []*int{nil, &one, &two}
		atoms := c12Atoms("k", vals, bounds, []*int{nil})
		atomsMV := c12Atoms("k", []string{"0", "1", "a"}, []string{"0", "2"}, mvs)
		r.Rule = "atoms = {In,NotIn} x value sets of size 1-2 over {0,1,2,3,a,-1}, Exists, DoesNotExist, {Gt,Lt,Gte,Lte} x {-1,0,1,2,3,MaxInt64,MinInt64}; " +
			"all pairs and triples of atoms through Requirement.Intersection/HasIntersection/Has and Requirements.Add (incl. alias keys); every label SET {alias: v1, stable: v2} over all alias pairs through NewLabelRequirements; all (A,B) with <=1 atom on a " +
			"well-known and on a custom key through Compatible/Intersects; judged on a witness universe W (every mentioned value, integers within 2 of every bound, " +
			"fresh string, far integers). non-trivial = distinct (operands, clause) where the admitted sets of the operands partially overlap or the clause compares a bounded set"
		r.Assumptions = []string{"In with an empty value list is excluded (rejected by Kubernetes and Karpenter validation)",
			"compatibility (clause 4) uses one source requirement per key per side: Karpenter's merged representation cannot distinguish `NotIn x` from `NotIn x AND Exists`, which the statement does not cover (requirement *sets* hold one requirement per key)",
			"Gt MaxInt64 / Lt MinInt64 excluded from clause 4 only"}
		n := len(atoms)
		// ---- clauses 1-3 + laws: all triples
		enum.Run(r, int64(n)*int64(n), func(idx int64, l *ev.Local) {
			ai, bi := int(idx)/n, int(idx)%n
			a, b := atoms[ai], atoms[bi]
			W := oracle.Witness([]oracle.Req{a.r, b.r}, []oracle.Req{{Values: []string{"-1", "0", "1", "2", "3", "a"}}})
			ra, rb := mk(a), mk(b)
			if bi == 0 { // clause 1: Has vs Kubernetes matching, once per atom
				l.Eval()
				if got, want := admitsImpl(ra, W), admitsRef(W, a); got != want {
					l.Violation("has: "+clsOf(a), fmt.Sprintf("%s admits {%s}, Kubernetes admits {%s}", oracle.ReqString(a.r), got, want), map[string]any{"a": a.r})
				}
				l.Nontrivial("has/" + oracle.ReqString(a.r))
				// idempotence
				if got, want := admitsImpl(ra.Intersection(mk(a)), W), admitsRef(W, a); got != want {
					l.Violation("idempotence: "+clsOf(a), fmt.Sprintf("%s ∩ itself admits {%s}, expected {%s}", oracle.ReqString(a.r), got, want), map[string]any{"a": a.r})
				}
			}
			l.Eval()
			x := ra.Intersection(rb)
			refAB := admitsRef(W, a, b)
			partial := refAB != "" && (refAB != admitsRef(W, a) || refAB != admitsRef(W, b))
			if partial {
				l.Nontrivial("pair/" + atomsStr(a, b))
			}
			if got := admitsImpl(x, W); got != refAB {
				l.Violation("intersection: "+clsOf(a, b), fmt.Sprintf("(%s) admits {%s}, set semantics {%s}", atomsStr(a, b), got, refAB), map[string]any{"a": a.r, "b": b.r})
			}
			if got, want := ra.HasIntersection(rb), refAB != ""; got != want {
				l.Violation(fmt.Sprintf("hasintersection: %s impl=%v", clsOf(a, b), got), fmt.Sprintf("HasIntersection(%s)=%v but the intersection admits {%s}", atomsStr(a, b), got, refAB), map[string]any{"a": a.r, "b": b.r})
			}
			// commutativity
			if got := admitsImpl(rb.Intersection(ra), W); got != refAB {
				l.Violation("commutativity: "+clsOf(a, b), fmt.Sprintf("(%s) reversed admits {%s}, expected {%s}", atomsStr(a, b), got, refAB), map[string]any{"a": a.r, "b": b.r})
			}
			if ra.HasIntersection(rb) != rb.HasIntersection(ra) {
				l.Violation("hasintersection-asymmetric: "+clsOf(a, b), fmt.Sprintf("HasIntersection(%s) differs by argument order", atomsStr(a, b)), map[string]any{"a": a.r, "b": b.r})
			}
			// Requirements.Add with an alias key for b
			reqs := scheduling.NewNodeSelectorRequirementsWithMinValues(
				oracle.Req{Key: corev1.LabelArchStable, Operator: a.r.Operator, Values: append([]string{}, a.r.Values...)},
				oracle.Req{Key: "beta.kubernetes.io/arch", Operator: b.r.Operator, Values: append([]string{}, b.r.Values...)})
			if len(reqs) != 1 || !reqs.Has(corev1.LabelArchStable) {
				l.Violation("alias-key-not-normalized", fmt.Sprintf("requirements on kubernetes.io/arch and beta.kubernetes.io/arch ended up under keys %v", reqs.Keys().UnsortedList()), nil)
			} else if got := admitsImpl(reqs.Get(corev1.LabelArchStable), W); got != refAB {
				l.Violation("add-alias: "+clsOf(a, b), fmt.Sprintf("Requirements.Add(%s) via alias key admits {%s}, expected {%s}", atomsStr(a, b), got, refAB), nil)
			}
			for ci := 0; ci < n; ci++ {
				c := atoms[ci]
				l.Eval()
				Wc := W
				if len(c.r.Values) > 0 {
					Wc = oracle.Witness([]oracle.Req{a.r, b.r, c.r}, []oracle.Req{{Values: []string{"-1", "0", "1", "2", "3", "a"}}})
				}
				rc := mk(c)
				ref3 := admitsRef(Wc, a, b, c)
				y := x.Intersection(rc)
				if got := admitsImpl(y, Wc); got != ref3 {
					l.Violation("intersection3: "+clsOf(a, b, c), fmt.Sprintf("((%s) ∩ %s) admits {%s}, set semantics {%s}", atomsStr(a, b), oracle.ReqString(c.r), got, ref3), map[string]any{"a": a.r, "b": b.r, "c": c.r})
				}
				if got, want := x.HasIntersection(rc), ref3 != ""; got != want {
					l.Violation(fmt.Sprintf("hasintersection3: %s impl=%v", clsOf(a, b, c), got), fmt.Sprintf("HasIntersection((%s), %s)=%v but the intersection admits {%s}", atomsStr(a, b), oracle.ReqString(c.r), got, ref3), map[string]any{"a": a.r, "b": b.r, "c": c.r})
				}
				// associativity
				if got := admitsImpl(ra.Intersection(rb.Intersection(rc)), Wc); got != ref3 {
					l.Violation("associativity: "+clsOf(a, b, c), fmt.Sprintf("%s ∩ (%s) admits {%s}, expected {%s}", oracle.ReqString(a.r), atomsStr(b, c), got, ref3), map[string]any{"a": a.r, "b": b.r, "c": c.r})
				}
				if ref3 != "" && ref3 != refAB {
					l.NontrivialH(ev.H("triple/"+atomsStr(a, b, c)))
				}
			}
			if idx == int64(n)*7+13 {
				l.Sample(map[string]any{"a": oracle.ReqString(a.r), "b": oracle.ReqString(b.r), "W": W, "intersection_admits": refAB})
			}
		})
		// ---- minValues = max over operands
		m := len(atomsMV)
		enum.Run(r, int64(m)*int64(m), func(idx int64, l *ev.Local) {
			a, b := atomsMV[int(idx)/m], atomsMV[int(idx)%m]
			l.Eval()
			x := mk(a).Intersection(mk(b))
			if want := maxPtr(a.r.MinValues, b.r.MinValues); !eqPtr(x.MinValues, want) {
				l.Violation("minvalues-not-max: "+clsOf(a, b), fmt.Sprintf("(%s): MinValues=%v want %v", atomsStr(a, b), x.MinValues, want), nil)
			}
			if a.r.MinValues != nil || b.r.MinValues != nil {
				l.NontrivialH(ev.H("mv/" + atomsStr(a, b)))
			}
		})
		// ---- label SETS with an aliased key: NewLabelRequirements({alias: v1, stable: v2}) must admit exactly {v1} ∩ {v2} on the
		// stable key (both labels name the same concept), for every alias pair and every pair of values
		aliases := make([]string, 0, len(v1.NormalizedLabels))
		for a := range v1.NormalizedLabels {
			aliases = append(aliases, a)
		}
		sort.Strings(aliases)
		avals := []string{"a", "b"}
		enum.Run(r, enum.Size(len(aliases), len(avals), len(avals), 3), func(idx int64, l *ev.Local) {
			d := enum.Odo(idx, len(aliases), len(avals), len(avals), 3)
			alias, stable := aliases[d[0]], v1.NormalizedLabels[aliases[d[0]]]
			va, vs := avals[d[1]], avals[d[2]]
			l.Eval()
			l.Nontrivial(fmt.Sprintf("labelset/%d", idx))
			// repeated: which entry of a Go map is visited last is random, so an overwrite instead of an intersection shows
			// in some repetitions only
			for rep := 0; rep < 8; rep++ {
				reqs := scheduling.NewLabelRequirements(map[string]string{alias: va, stable: vs})
				for _, v := range avals {
					want := v == va && v == vs
					if got := reqs.Get(stable).Has(v); got != want {
						l.Violation("label set with an aliased key is not the intersection", fmt.Sprintf("NewLabelRequirements({%s: %s, %s: %s}).Get(%s).Has(%q) = %v, expected %v (both keys name the same label)", alias, va, stable, vs, stable, v, got, want), nil)
						return
					}
				}
				// compatibility of a node labelled stable=vs with this selector-like set
				node := scheduling.NewLabelRequirements(map[string]string{stable: vs})
				wantCompat := va == vs
				if got := node.IsCompatible(reqs, scheduling.AllowUndefinedWellKnownLabels); got != wantCompat {
					l.Violation("label set with an aliased key: compatibility", fmt.Sprintf("node {%s: %s} compatible with {%s: %s, %s: %s} = %v, expected %v", stable, vs, alias, va, stable, vs, got, wantCompat), nil)
					return
				}
			}
			_ = d[3]
		})
		// ---- clause 4: Compatible / Intersects, one atom (or none) per key per side
		cvals, cbounds := []string{"0", "1", "2", "a"}, []string{"0", "1", "2"}
		if r.Tier == "thorough" {
			cvals, cbounds = []string{"0", "1", "2", "3", "a"}, []string{"-1", "0", "1", "2"}
		}
		wk := append([]atom{{}}, c12Atoms(corev1.LabelArchStable, cvals, cbounds, []*int{nil})...)
		ck := append([]atom{{}}, c12Atoms("team", cvals, cbounds, []*int{nil})...)
		k := len(wk)
		r.Extra["compat_atoms_per_key"] = k - 1
		r.Extra["algebra_atoms"] = n
		W4 := oracle.Witness([]oracle.Req{{Values: append(append([]string{}, cvals...), cbounds...)}})
		existsState := func(as ...atom) bool { // some label state (absent or present v) satisfies every given atom
			okAbsent := true
			for _, a := range as {
				if a.r.Key != "" && !oracle.Sat(a.r, false, "") {
					okAbsent = false
				}
			}
			if okAbsent {
				return true
			}
			for _, v := range W4 {
				ok := true
				for _, a := range as {
					if a.r.Key != "" && !oracle.Sat(a.r, true, v) {
						ok = false
						break
					}
				}
				if ok {
					return true
				}
			}
			return false
		}
		enum.Run(r, enum.Size(k, k, k, k), func(idx int64, l *ev.Local) {
			d := enum.Odo(idx, k, k, k, k)
			aw, ac, bw, bc := wk[d[0]], ck[d[1]], wk[d[2]], ck[d[3]]
			l.Eval()
			build := func(as ...atom) scheduling.Requirements {
				rs := scheduling.NewRequirements()
				for _, a := range as {
					if a.r.Key != "" {
						rs.Add(mk(a))
					}
				}
				return rs
			}
			A, B := build(aw, ac), build(bw, bc)
			// reference
			refKey := func(a, b atom, wellKnown bool) (compat, intersects bool) {
				if b.r.Key == "" {
					return true, true
				}
				if a.r.Key == "" {
					if wellKnown {
						return existsState(b), true
					}
					return oracle.Sat(b.r, false, ""), true // undefined custom label: only "absent" is allowed
				}
				e := existsState(a, b)
				return e, e
			}
			cw, iw := refKey(aw, bw, true)
			cc, ic := refKey(ac, bc, false)
			wantC, wantI := cw && cc, iw && ic
			gotC := A.Compatible(B, scheduling.AllowUndefinedWellKnownLabels) == nil
			gotI := A.Intersects(B) == nil
			if gotC != A.IsCompatible(B, scheduling.AllowUndefinedWellKnownLabels) {
				l.Violation("iscompatible-differs-from-compatible", "IsCompatible and Compatible disagree", nil)
			}
			desc := fmt.Sprintf("A={%s ; %s} B={%s ; %s}", oracle.ReqString(aw.r), oracle.ReqString(ac.r), oracle.ReqString(bw.r), oracle.ReqString(bc.r))
			if gotC != wantC {
				l.Violation(fmt.Sprintf("compatible: wk(%s|%s) custom(%s|%s) impl=%v", aw.cls, bw.cls, ac.cls, bc.cls, gotC), "Compatible "+desc+fmt.Sprintf(" = %v, reference %v", gotC, wantC), map[string]any{"A": []oracle.Req{aw.r, ac.r}, "B": []oracle.Req{bw.r, bc.r}})
			}
			if gotI != wantI {
				l.Violation(fmt.Sprintf("intersects: wk(%s|%s) custom(%s|%s) impl=%v", aw.cls, bw.cls, ac.cls, bc.cls, gotI), "Intersects "+desc+fmt.Sprintf(" = %v, reference %v", gotI, wantI), map[string]any{"A": []oracle.Req{aw.r, ac.r}, "B": []oracle.Req{bw.r, bc.r}})
			}
			if aw.r.Key != "" && bw.r.Key != "" && ac.r.Key != "" && bc.r.Key != "" {
				l.NontrivialH(uint64(idx) ^ 0x9e3779b97f4a7c15)
			}
			l.Outcome(fmt.Sprintf("compatible=%v intersects=%v", gotC, gotI))
			if idx == enum.Size(k, k, k, k)/2+7 {
				l.Sample(map[string]any{"case": desc, "compatible": gotC, "intersects": gotI})
			}
		})
	})
}
