package checks

import (
	"fmt"
	"os"
	"runtime"
	"strings"

	corev1 "k8s.io/api/core/v1"
	"sigs.k8s.io/controller-runtime/pkg/client"

	v1 "sigs.k8s.io/karpenter/pkg/apis/v1"

	"verif/internal/enum"
	"verif/internal/ev"
	"verif/internal/explore"
)

// C07, second part — a protection that APPEARS while the disruption round is under way. Node A of the all-clear world is
// disruptable by the method; one environment event makes it protected / ineligible in the middle of the round (before
// any one of the round's API calls). The round examines a candidate more than once (Drift: SimulateScheduling re-reads
// the cluster state and drops a candidate that is deleting by now; Emptiness and consolidation: the validator rebuilds the
// candidates 15 s later), so an event that lands before the LAST examination has begun must keep A out of the command.
// Events that land later are a genuine time-of-check / time-of-use window and are only counted.

var c07RaceEvents = []string{"nodeclaim-deleted-and-observed", "marked-for-deletion", "nominated-for-a-pod", "pod-gets-do-not-disrupt", "node-gets-do-not-disrupt"}

// c07Phase names the part of the round the current API call belongs to (from the call stack).
func c07Phase() string {
	pcs := make([]uintptr, 64)
	n := runtime.Callers(1, pcs)
	frames := runtime.CallersFrames(pcs[:n])
	var start, validate, simulate, own bool
	for {
		f, more := frames.Next()
		if os.Getenv("C07_DEBUG") != "" {
			fmt.Fprintln(os.Stderr, "  frame:", f.Function)
		}
		if strings.Contains(f.Function, "controllers/disruption.") {
			fn := f.Function[strings.LastIndex(f.Function, "controllers/disruption.")+len("controllers/disruption."):]
			own = true
			switch {
			case strings.Contains(fn, "StartCommand") || strings.HasPrefix(fn, "(*Queue)."): // markDisrupted runs on worker goroutines
				start = true
			case strings.Contains(fn, "Validate") || strings.Contains(fn, "isValid") || strings.Contains(fn, "validateCandidates") || strings.Contains(fn, "validateCommand"):
				validate = true
			case strings.HasPrefix(fn, "SimulateScheduling"):
				simulate = true
			}
		}
		if !more {
			break
		}
	}
	switch {
	case start:
		return "start-command"
	case validate:
		return "validation"
	case simulate:
		return "first-simulation"
	case own:
		return "candidates-and-budgets"
	}
	return "" // a call made on a worker goroutine (RequireNoScheduleTaint, ...): the stack does not say where it belongs
}

// c07MustCatch: by the code's own re-examination points, an event of this kind landing in this phase is seen by a later
// complete examination of the candidate.
func c07MustCatch(method, event, phase string) bool {
	if phase == "before-candidates" {
		return true // the candidates have not even been built yet
	}
	switch method {
	case "Drift":
		// SimulateScheduling snapshots the cluster state before its first call and refuses a candidate that is deleting
		return phase == "candidates-and-budgets" && (event == "nodeclaim-deleted-and-observed" || event == "marked-for-deletion")
	case "Emptiness", "MultiNodeConsolidation", "SingleNodeConsolidation":
		// the validator rebuilds the candidates from scratch after the validation delay
		return phase == "candidates-and-budgets" || phase == "first-simulation"
	}
	return false
}

func c07Races(r *ev.Rec) {
	type rc struct {
		contents string
		drifted  bool
		method   string
	}
	var cases []rc
	for _, contents := range []string{"empty", "one-pod"} {
		for _, drifted := range []bool{false, true} {
			for _, m := range []string{"Emptiness", "Drift", "MultiNodeConsolidation", "SingleNodeConsolidation"} {
				cases = append(cases, rc{contents, drifted, m})
			}
		}
	}
	enum.Run(r, int64(len(cases)), func(idx int64, l *ev.Local) {
		c := cases[idx]
		// The phases are recognised by function names on the call stack. The event-free execution (the first one) checks
		// that the names the oracle relies on were actually seen whenever a command came out; if not (the code was
		// refactored) nothing is flagged for this case and the evidence says so — a renamed function must not raise an alarm.
		phasesKnown, first := false, true
		ex := &explore.Explorer{Bound: 1, MaxExecs: 50000, Stop: r.Expired}
		ex.Exec = func(run *explore.Run) {
			seenPhase := map[string]bool{}
			cc := c07Case{v: make([]int, len(c07Factors)), contents: c.contents, drifted: c.drifted}
			env := buildDisrupt(cc.world())
			w := env.W
			pid := env.PIDs["a"]
			var fired, phase, before, cur string
			classified := false
			w.AttachInterleave(run, c07RaceEvents, func(name, label string) bool {
				fired, before, phase = name, label, cur
				switch name {
				case "nodeclaim-deleted-and-observed":
					if nc := w.GetNodeClaim("nc-a"); nc != nil {
						_ = w.Client.Delete(w.Ctx, nc)
						w.SyncCluster()
					}
				case "marked-for-deletion":
					w.Cluster.MarkForDeletion(pid)
				case "nominated-for-a-pod":
					w.Cluster.NominateNodeForPod(w.Ctx, pid)
				case "pod-gets-do-not-disrupt":
					p := &corev1.Pod{}
					name := "p1"
					if c.contents == "empty" {
						name = "d1"
					}
					if err := w.Raw.Get(w.Ctx, client.ObjectKey{Namespace: "default", Name: name}, p); err == nil {
						if p.Annotations == nil {
							p.Annotations = map[string]string{}
						}
						p.Annotations[v1.DoNotDisruptAnnotationKey] = "true"
						w.EnvUpdate(p)
						w.SyncCluster()
					}
				case "node-gets-do-not-disrupt":
					if n := w.GetNode("a"); n != nil {
						if n.Annotations == nil {
							n.Annotations = map[string]string{}
						}
						n.Annotations[v1.DoNotDisruptAnnotationKey] = "true"
						w.EnvUpdate(n)
						w.SyncCluster()
					}
				}
				return true
			})
			// the phase of every call, in order: calls on worker goroutines carry no frames of the round; before the first
			// call of a simulation or validation they are the taint clean-up at the start of the reconcile, afterwards they
			// are taken to belong to the execution of the command (never flagged)
			inner := w.Client.Sched
			w.Client.SerializeSched = true
			w.Client.Sched = func(label string) {
				switch ph := c07Phase(); {
				case ph != "":
					cur = ph
					seenPhase[ph] = true
					if ph != "candidates-and-budgets" {
						classified = true // every method simulates or validates (with API calls) before it starts a command
					}
				case classified:
					cur = "start-command"
				case strings.HasPrefix(label, "get Node/") || strings.HasPrefix(label, "patch Node/") || strings.HasPrefix(label, "get NodeClaim/") || strings.HasPrefix(label, "status-patch NodeClaim/"):
					cur = "before-candidates" // the taint / condition clean-up at the start of the reconcile
				default:
					cur = "unattributed" // some other call from a worker goroutine: never flagged
				}
				inner(label)
			}
			cmds, err := env.round(c.method)
			w.Client.Sched = nil
			l.Eval()
			l.Traces++
			if err != nil {
				l.Outcome("race: reconcile-error")
			}
			selected := false
			for _, cmd := range cmds {
				for _, cn := range cmdCandidates(cmd) {
					if cn == "a" {
						selected = true
					}
				}
			}
			if first {
				first = false
				switch c.method {
				case "Drift":
					phasesKnown = seenPhase["candidates-and-budgets"] && seenPhase["first-simulation"]
				case "Emptiness":
					phasesKnown = seenPhase["candidates-and-budgets"] && seenPhase["validation"]
				default:
					phasesKnown = seenPhase["candidates-and-budgets"] && seenPhase["first-simulation"] && seenPhase["validation"]
				}
				if !selected {
					phasesKnown = true // nothing is selected in this world anyway: nothing can be flagged
				}
				if !phasesKnown {
					l.Outcome("race: phases not recognisable from the call stack (renamed functions?) - part not judged for " + c.method)
				}
			}
			if fired == "" {
				l.Outcome(fmt.Sprintf("race: no event, selected=%v", selected))
				return
			}
			// the daemon pod of an otherwise empty node does not protect it
			protects := !(fired == "pod-gets-do-not-disrupt" && c.contents == "empty")
			must := phasesKnown && protects && c07MustCatch(c.method, fired, phase)
			l.NontrivialH(ev.H(fmt.Sprintf("race/%d/%s/%s/%v", idx, fired, before, selected)))
			switch {
			case selected && must:
				l.Violation(fmt.Sprintf("%s selected a node that became protected / ineligible before its last examination: %s during %s", c.method, fired, phase),
					fmt.Sprintf("%s put node A into a command although A was %s while the round was still in its %s phase (before %s), i.e. before the round's last complete examination of its candidates  [contents=%s drifted=%v; commands %v]", c.method, fired, phase, before, c.contents, c.drifted, cmdStrings(cmds)),
					map[string]any{"contents": c.contents, "drifted": c.drifted, "method": c.method, "event": fired, "before": before, "phase": phase, "plan": run.Plan(), "choices": run.Choices()})
			case selected:
				l.Outcome("race: selected, event landed after the last examination began (" + phase + ")")
			case must:
				l.Outcome("race: kept out of the command (" + phase + ")")
			default:
				l.Outcome("race: not selected (" + phase + ")")
			}
		}
		ex.Explore()
		noteDiverged(l, ex, "race")
		l.Transitions += int64(ex.Points)
		if ex.Capped {
			l.Outcome("exploration-capped")
			r.Exhaustive = false
		}
	})
}
