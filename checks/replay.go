package checks

import (
	"encoding/json"
	"fmt"
	"os"
	"sort"
)

// A Replayer re-executes ONE recorded execution (scenario + choice sequence / operation list from a replay file)
// sequentially, without the explorer, prints what happened and returns the violation signatures it re-found.
type Replayer func(detail map[string]any) []string

var Replayers = map[string]Replayer{}

func registerReplay(id string, f Replayer) { Replayers[id] = f }

// Replay implements `vc replay <file>`: exit status 1 iff the recorded signature is reproduced.
func Replay(file string) int {
	raw, err := os.ReadFile(file)
	if err != nil {
		fmt.Fprintln(os.Stderr, err)
		return 2
	}
	var rec struct {
		Property string         `json:"property"`
		Sig      string         `json:"sig"`
		Msg      string         `json:"msg"`
		Detail   map[string]any `json:"detail"`
	}
	if err := json.Unmarshal(raw, &rec); err != nil {
		fmt.Fprintln(os.Stderr, err)
		return 2
	}
	f, ok := Replayers[rec.Property]
	if !ok {
		ids := []string{}
		for id := range Replayers {
			ids = append(ids, id)
		}
		sort.Strings(ids)
		fmt.Fprintf(os.Stderr, "no replayer for %s (available: %v); the replay file itself holds the input case and the oracle's explanation\n", rec.Property, ids)
		return 2
	}
	fmt.Printf("replaying %s: recorded signature %q\n", rec.Property, rec.Sig)
	sigs := f(rec.Detail)
	for _, s := range sigs {
		if s == rec.Sig {
			fmt.Printf("REPRODUCED property=%s sig=%q\n", rec.Property, rec.Sig)
			return 1
		}
	}
	fmt.Printf("NOT REPRODUCED property=%s (re-found: %q)\n", rec.Property, sigs)
	return 0
}

func intList(v any) []int {
	var out []int
	if l, ok := v.([]any); ok {
		for _, x := range l {
			if f, ok := x.(float64); ok {
				out = append(out, int(f))
			}
		}
	}
	return out
}

func intMap(v any) map[string]int {
	out := map[string]int{}
	if m, ok := v.(map[string]any); ok {
		for k, x := range m {
			if f, ok := x.(float64); ok {
				out[k] = int(f)
			}
		}
	}
	return out
}
