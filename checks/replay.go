package checks

import (
	"encoding/json"
	"fmt"
	"os"
	"sort"

	"verif/internal/enum"
	"verif/internal/ev"
)

// A Replayer re-executes ONE recorded execution (scenario + choice sequence / operation list from a replay file)
// sequentially, without the explorer, prints what happened and returns the violation signatures it re-found.
type Replayer func(detail map[string]any) []string

var Replayers = map[string]Replayer{}

func registerReplay(id string, f Replayer) { Replayers[id] = f }

// Replay implements `vc replay <file>`: exit status 1 iff the recorded signature is reproduced.
func Replay(file string) int {
	raw, err := os.ReadFile(file)
	if err != nil {
		fmt.Fprintln(os.Stderr, err)
		return 2
	}
	var rec struct {
		Property string         `json:"property"`
		Tier     string         `json:"tier"`
		Sig      string         `json:"sig"`
		Msg      string         `json:"msg"`
		Detail   map[string]any `json:"detail"`
		Case     *ev.CaseRef    `json:"case"`
	}
	if err := json.Unmarshal(raw, &rec); err != nil {
		fmt.Fprintln(os.Stderr, err)
		return 2
	}
	f, ok := Replayers[rec.Property]
	if !ok && rec.Case != nil {
		f, ok = caseReplayer(rec.Property, rec.Tier, *rec.Case), true
	}
	if !ok {
		ids := []string{}
		for id := range Replayers {
			ids = append(ids, id)
		}
		sort.Strings(ids)
		fmt.Fprintf(os.Stderr, "no replayer for %s (available: %v); the replay file itself holds the input case and the oracle's explanation\n", rec.Property, ids)
		return 2
	}
	fmt.Printf("replaying %s: recorded signature %q\n", rec.Property, rec.Sig)
	sigs := f(rec.Detail)
	for _, s := range sigs {
		if s == rec.Sig {
			fmt.Printf("REPRODUCED property=%s sig=%q\n", rec.Property, rec.Sig)
			return 1
		}
	}
	if _, specific := Replayers[rec.Property]; specific && rec.Case != nil {
		// the check-specific replayer did not apply to this record (a violation from an enumeration part of the check)
		for _, s := range caseReplayer(rec.Property, rec.Tier, *rec.Case)(rec.Detail) {
			if s == rec.Sig {
				fmt.Printf("REPRODUCED property=%s sig=%q\n", rec.Property, rec.Sig)
				return 1
			}
		}
	}
	fmt.Printf("NOT REPRODUCED property=%s (re-found: %q)\n", rec.Property, sigs)
	return 0
}

// caseReplayer is the generic replayer of the enumeration checks: the check is run again in this one process, with
// every enumeration restricted to the recorded case (part = which enumeration of the check, index = which case in it).
// Nothing is written to evidence/ or replays/.
func caseReplayer(id, tier string, c ev.CaseRef) Replayer {
	return func(map[string]any) []string {
		chk, ok := Registry[id]
		if !ok {
			fmt.Fprintf(os.Stderr, "unknown check %s\n", id)
			return nil
		}
		if tier != "thorough" {
			tier = "quick"
		}
		os.Setenv("VERIF_INPROC", "1")
		r := ev.New(id, tier, chk.Level)
		enum.Only(&c)
		defer enum.Only(nil)
		fmt.Printf("re-running %s (%s) enumeration #%d, case %d only\n", id, tier, c.Part, c.Index)
		// Go map iteration order inside the code under test (candidate ties, domain choice) is not owned by the harness:
		// a case whose verdict depends on it is re-run a few times
		var sigs []string
		for attempt := 1; attempt <= 10 && len(sigs) == 0; attempt++ {
			enum.Only(&c)
			chk.Run(r)
			sigs = r.ViolationSigs()
			if len(sigs) > 0 && attempt > 1 {
				fmt.Printf("  (violated on attempt %d: the verdict of this case depends on map iteration order in the code under test)\n", attempt)
			}
		}
		for _, s := range sigs {
			fmt.Printf("  violation: %s\n    %s\n", s, r.ViolationMsg(s))
		}
		return sigs
	}
}

func intList(v any) []int {
	var out []int
	if l, ok := v.([]any); ok {
		for _, x := range l {
			if f, ok := x.(float64); ok {
				out = append(out, int(f))
			}
		}
	}
	return out
}

func intMap(v any) map[string]int {
	out := map[string]int{}
	if m, ok := v.(map[string]any); ok {
		for k, x := range m {
			if f, ok := x.(float64); ok {
				out[k] = int(f)
			}
		}
	}
	return out
}
