package checks

import (
	"fmt"
	apierrors "k8s.io/apimachinery/pkg/api/errors"
	"math"
	"sort"
	"strings"
	"time"

	corev1 "k8s.io/api/core/v1"
	"k8s.io/apimachinery/pkg/api/resource"
	metav1 "k8s.io/apimachinery/pkg/apis/meta/v1"

	v1 "sigs.k8s.io/karpenter/pkg/apis/v1"
	nodeclaimdisruption "sigs.k8s.io/karpenter/pkg/controllers/nodeclaim/disruption"
	"sigs.k8s.io/karpenter/pkg/controllers/nodeclaim/lifecycle"
	nodepoolhash "sigs.k8s.io/karpenter/pkg/controllers/nodepool/hash"
	"sigs.k8s.io/karpenter/pkg/operator/options"
	"sigs.k8s.io/karpenter/pkg/state/nodepoolhealth"

	"verif/internal/enum"
	"verif/internal/ev"
	"verif/internal/explore"
	"verif/oracle"
	"verif/world"
)

// C15 — drift: hash sensitivity / insensitivity, no self-inflicted drift, drift on relevant changes.

type npEdit struct {
	name   string
	hashed bool                       // documented as drift-relevant (must change the hash) or not (must not)
	apply  func(np *v1.NodePool) bool // returns false if the edit is a no-op on this base
}

func nd(s string) v1.NillableDuration { return v1.MustParseNillableDuration(s) }

func c15Bases() map[string]*v1.NodePool {
	full := world.NodePool("default", labelMod("env", "prod"), taintMod(corev1.Taint{Key: "a", Value: "1", Effect: corev1.TaintEffectNoSchedule}, corev1.Taint{Key: "b", Value: "2", Effect: corev1.TaintEffectNoExecute}),
		startupMod(corev1.Taint{Key: "boot", Value: "x", Effect: corev1.TaintEffectNoSchedule}), reqsMod(oracle.R(corev1.LabelTopologyZone, corev1.NodeSelectorOpIn, "a", "b")))
	full.Spec.Template.Annotations = map[string]string{"note": "x"}
	full.Spec.Template.Spec.TerminationGracePeriod = &metav1.Duration{Duration: 30 * time.Second}
	full.Spec.Template.Spec.ExpireAfter = nd("10m")
	minimal := world.NodePool("default")
	minimal.Spec.Template.Spec.ExpireAfter = nd("Never")
	zero := world.NodePool("default", labelMod("env", "prod"))
	zero.Spec.Template.Spec.TerminationGracePeriod = &metav1.Duration{Duration: 0}
	zero.Spec.Template.Spec.ExpireAfter = nd("0s")
	return map[string]*v1.NodePool{"full": full, "minimal": minimal, "zero-durations": zero}
}

func c15Edits() []npEdit {
	var out []npEdit
	add := func(name string, hashed bool, f func(np *v1.NodePool) bool) {
		out = append(out, npEdit{name, hashed, f})
	}
	t := func(np *v1.NodePool) *v1.NodeClaimTemplate { return &np.Spec.Template }
	add("label added", true, func(np *v1.NodePool) bool { labelMod("tier", "web")(np); return true })
	add("label value changed", true, func(np *v1.NodePool) bool {
		if t(np).Labels["env"] == "" {
			return false
		}
		t(np).Labels["env"] = "dev"
		return true
	})
	add("label removed", true, func(np *v1.NodePool) bool {
		if _, ok := t(np).Labels["env"]; !ok {
			return false
		}
		delete(t(np).Labels, "env")
		return true
	})
	add("annotation added", true, func(np *v1.NodePool) bool {
		if t(np).Annotations == nil {
			t(np).Annotations = map[string]string{}
		}
		t(np).Annotations["extra"] = "1"
		return true
	})
	add("taint added", true, func(np *v1.NodePool) bool {
		taintMod(corev1.Taint{Key: "c", Value: "3", Effect: corev1.TaintEffectNoSchedule})(np)
		return true
	})
	add("taint value changed", true, func(np *v1.NodePool) bool {
		if len(t(np).Spec.Taints) == 0 {
			return false
		}
		t(np).Spec.Taints[0].Value = "changed"
		return true
	})
	add("taint effect changed", true, func(np *v1.NodePool) bool {
		if len(t(np).Spec.Taints) == 0 {
			return false
		}
		t(np).Spec.Taints[0].Effect = corev1.TaintEffectPreferNoSchedule
		return true
	})
	add("taint removed", true, func(np *v1.NodePool) bool {
		if len(t(np).Spec.Taints) == 0 {
			return false
		}
		t(np).Spec.Taints = t(np).Spec.Taints[1:]
		return true
	})
	add("startup taint added", true, func(np *v1.NodePool) bool {
		startupMod(corev1.Taint{Key: "boot2", Effect: corev1.TaintEffectNoSchedule})(np)
		return true
	})
	add("taint moved to startup taints", true, func(np *v1.NodePool) bool {
		if len(t(np).Spec.Taints) == 0 {
			return false
		}
		t(np).Spec.StartupTaints = append(t(np).Spec.StartupTaints, t(np).Spec.Taints[0])
		t(np).Spec.Taints = t(np).Spec.Taints[1:]
		return true
	})
	add("nodeClassRef.name changed", true, func(np *v1.NodePool) bool { t(np).Spec.NodeClassRef.Name = "other"; return true })
	add("nodeClassRef.kind changed", true, func(np *v1.NodePool) bool { t(np).Spec.NodeClassRef.Kind = "OtherClass"; return true })
	add("nodeClassRef.group changed", true, func(np *v1.NodePool) bool { t(np).Spec.NodeClassRef.Group = "other.sh"; return true })
	for _, d := range []*time.Duration{nil, dur(0), dur(30 * time.Second), dur(time.Minute)} {
		d := d
		add("terminationGracePeriod := "+durName(d), true, func(np *v1.NodePool) bool {
			cur := t(np).Spec.TerminationGracePeriod
			if (cur == nil) == (d == nil) && (cur == nil || cur.Duration == *d) {
				return false
			}
			if d == nil {
				t(np).Spec.TerminationGracePeriod = nil
			} else {
				t(np).Spec.TerminationGracePeriod = &metav1.Duration{Duration: *d}
			}
			return true
		})
	}
	for _, e := range []string{"Never", "0s", "10m", "1h"} {
		e := e
		add("expireAfter := "+e, true, func(np *v1.NodePool) bool {
			cur := t(np).Spec.ExpireAfter
			nw := nd(e)
			if (cur.Duration == nil) == (nw.Duration == nil) && (cur.Duration == nil || *cur.Duration == *nw.Duration) {
				return false
			}
			t(np).Spec.ExpireAfter = nw
			return true
		})
	}
	// ---- documented as non-drifting
	add("budgets changed", false, func(np *v1.NodePool) bool {
		np.Spec.Disruption.Budgets = []v1.Budget{{Nodes: "1"}, {Nodes: "50%", Reasons: []v1.DisruptionReason{v1.DisruptionReasonDrifted}}}
		return true
	})
	add("requirement added", false, func(np *v1.NodePool) bool {
		reqsMod(oracle.R(corev1.LabelArchStable, corev1.NodeSelectorOpIn, "amd64"))(np)
		return true
	})
	add("requirement values changed", false, func(np *v1.NodePool) bool {
		if len(t(np).Spec.Requirements) == 0 {
			return false
		}
		t(np).Spec.Requirements[0].Values = []string{"b"}
		return true
	})
	add("requirement minValues set", false, func(np *v1.NodePool) bool {
		if len(t(np).Spec.Requirements) == 0 {
			return false
		}
		t(np).Spec.Requirements[0].MinValues = two()
		return true
	})
	add("limits changed", false, func(np *v1.NodePool) bool {
		np.Spec.Limits = v1.Limits{corev1.ResourceCPU: resource.MustParse("100")}
		return true
	})
	add("weight changed", false, func(np *v1.NodePool) bool { weight(7)(np); return true })
	add("consolidationPolicy changed", false, func(np *v1.NodePool) bool {
		np.Spec.Disruption.ConsolidationPolicy = v1.ConsolidationPolicyWhenEmpty
		return true
	})
	add("consolidateAfter changed", false, func(np *v1.NodePool) bool { np.Spec.Disruption.ConsolidateAfter = nd("5m"); return true })
	add("taints reordered", false, func(np *v1.NodePool) bool {
		if len(t(np).Spec.Taints) < 2 {
			return false
		}
		t(np).Spec.Taints[0], t(np).Spec.Taints[1] = t(np).Spec.Taints[1], t(np).Spec.Taints[0]
		return true
	})
	add("labels map rebuilt in another order", false, func(np *v1.NodePool) bool {
		if len(t(np).Labels) == 0 {
			return false
		}
		keys := make([]string, 0)
		for k := range t(np).Labels {
			keys = append(keys, k)
		}
		sort.Sort(sort.Reverse(sort.StringSlice(keys)))
		m := map[string]string{}
		for _, k := range keys {
			m[k] = t(np).Labels[k]
		}
		t(np).Labels = m
		return true
	})
	add("status and metadata changed", false, func(np *v1.NodePool) bool {
		np.Labels = map[string]string{"x": "y"}
		np.Status.Resources = corev1.ResourceList{corev1.ResourceCPU: resource.MustParse("3")}
		return true
	})
	return out
}

func durName(d *time.Duration) string {
	if d == nil {
		return "unset"
	}
	return d.String()
}

func c15Hash(r *ev.Rec) {
	bases := c15Bases()
	var names []string
	for n := range bases {
		names = append(names, n)
	}
	sort.Strings(names)
	edits := c15Edits()
	enum.Run(r, enum.Size(len(names), len(edits)), func(idx int64, l *ev.Local) {
		d := enum.Odo(idx, len(names), len(edits))
		base := bases[names[d[0]]].DeepCopy()
		edited := base.DeepCopy()
		e := edits[d[1]]
		if !e.apply(edited) {
			return
		}
		l.Eval()
		h0, h1 := base.Hash(), edited.Hash()
		l.NontrivialH(ev.H("hash/" + names[d[0]] + "/" + e.name))
		desc := fmt.Sprintf("base=%s edit=%q", names[d[0]], e.name)
		if e.hashed && h0 == h1 {
			sig := "hash unchanged by a drift-relevant edit: " + e.name
			l.Violation(sig, desc+fmt.Sprintf(": hash stays %s", h0), map[string]any{"base": names[d[0]], "edit": e.name})
		}
		if !e.hashed && h0 != h1 {
			l.Violation("hash changed by a non-drifting edit: "+e.name, desc+fmt.Sprintf(": hash %s -> %s", h0, h1), map[string]any{"base": names[d[0]], "edit": e.name})
		}
		l.Outcome(fmt.Sprintf("hashed=%v changed=%v", e.hashed, h0 != h1))
		if idx == 5 {
			l.Sample(map[string]any{"case": desc, "hash_before": h0, "hash_after": h1})
		}
	})
}

func c15PoolReqs() []oracle.Req {
	var out []oracle.Req
	for _, pr := range c13PoolReqs() {
		// keep requirements some real label value can satisfy (a NodePool nothing can satisfy drifts by definition)
		ok := false
		for _, v := range []string{"0", "1", "2", "3", "5", "x", "zz"} {
			if oracle.Sat(pr.req, true, v) {
				ok = true
			}
		}
		if oracle.Sat(pr.req, false, "") {
			ok = true
		}
		if ok {
			out = append(out, pr.req)
		}
	}
	return out
}

func driftedOf(nc *v1.NodeClaim) string {
	c := nc.StatusConditions().Get(v1.ConditionTypeDrifted)
	if c == nil || !c.IsTrue() {
		return ""
	}
	return c.Reason
}

func c15World(r *ev.Rec) {
	reqs := c15PoolReqs()
	shapes := []int{0, 1, 2, 3} // c13 pod shapes: small, key-in-2, key-notin-2, key-gt-1
	maxLaunch := 12
	if r.Tier == "thorough" {
		maxLaunch = 24
	}
	r.Extra["nodepool_requirement_atoms"] = len(reqs)
	enum.Run(r, enum.Size(len(reqs), len(shapes)), func(idx int64, l *ev.Local) {
		d := enum.Odo(idx, len(reqs), len(shapes))
		req := reqs[d[0]]
		build := func() (*SchedEnv, *v1.NodeClaim, *v1.NodePool) {
			np := world.NodePool("default", reqsMod(req), labelMod("env", "prod"))
			c := SchedCase{Catalog: "K4", MinV: options.MinValuesPolicyStrict, Pref: options.PreferencePolicyRespect, Workers: 1}
			w := world.New(world.Options{})
			env := &SchedEnv{W: w, Case: c, Catalog: catalogs["K4"], Volumes: map[string][]oracle.Volume{}, Pools: []*v1.NodePool{np}}
			w.CP.Catalog[""] = world.BuildCatalog(env.Catalog)
			w.Add(world.NodeClass(), np)
			hc := nodepoolhash.NewController(w.Client, w.CP)
			cur := &v1.NodePool{}
			must(w.Raw.Get(w.Ctx, clientKey("", "default"), cur))
			_, _ = hc.Reconcile(w.Ctx, cur)
			p := world.Pod("p0", c13PodShapes[shapes[d[1]]].cpu, c13Pod(shapes[d[1]], req.Key)...)
			env.Pending = []*corev1.Pod{p}
			w.Add(p)
			w.SyncCluster()
			out := env.runPass(explore.Replay(nil), 1)
			if out.Err != nil || len(out.Created) != 1 || out.Created[0] == nil {
				return env, nil, np
			}
			return env, out.Created[0], np
		}
		env0, nc0, _ := build()
		if nc0 == nil {
			l.Outcome("no-nodeclaim")
			return
		}
		// (0) ordering: the NodePool is annotated, a hashed field is edited, and a NodeClaim is created BEFORE the hash
		// controller has caught up; once it has, that NodeClaim — built from the current template — must not be drifted
		func() {
			np := world.NodePool("default", reqsMod(req), labelMod("env", "prod"))
			c := SchedCase{Catalog: "K4", MinV: options.MinValuesPolicyStrict, Pref: options.PreferencePolicyRespect, Workers: 1}
			w := world.New(world.Options{})
			env := &SchedEnv{W: w, Case: c, Catalog: catalogs["K4"], Volumes: map[string][]oracle.Volume{}, Pools: []*v1.NodePool{np}}
			w.CP.Catalog[""] = world.BuildCatalog(env.Catalog)
			w.Add(world.NodeClass(), np)
			hc := nodepoolhash.NewController(w.Client, w.CP)
			cur := &v1.NodePool{}
			must(w.Raw.Get(w.Ctx, clientKey("", "default"), cur))
			_, _ = hc.Reconcile(w.Ctx, cur)
			must(w.Raw.Get(w.Ctx, clientKey("", "default"), cur))
			cur.Spec.Template.Labels["env"] = "dev" // hashed edit; the hash controller has not seen it yet
			w.EnvUpdate(cur)
			p := world.Pod("p0", c13PodShapes[shapes[d[1]]].cpu, c13Pod(shapes[d[1]], req.Key)...)
			env.Pending = []*corev1.Pod{p}
			w.Add(p)
			w.SyncCluster()
			out := env.runPass(explore.Replay(nil), 1)
			if out.Err != nil || len(out.Created) != 1 || out.Created[0] == nil {
				return
			}
			nc := out.Created[0]
			lc := lifecycle.NewController(w.Clock, w.Client, w.CP, w.Rec, nodepoolhealth.NewState(), nil)
			launch, ok := advance(w, lc, nc.Name, "initialized", 0)
			if !ok {
				return
			}
			must(w.Raw.Get(w.Ctx, clientKey("", "default"), cur))
			_, _ = hc.Reconcile(w.Ctx, cur) // the hash controller catches up
			dc := nodeclaimdisruption.NewController(w.Clock, w.Client, w.CP)
			_, _ = dc.Reconcile(w.Ctx, w.GetNodeClaim(nc.Name))
			l.Eval()
			if got := driftedOf(w.GetNodeClaim(nc.Name)); got != "" {
				l.Violation("self-inflicted drift: "+got+" (NodeClaim created between a template edit and the hash controller's next run)", fmt.Sprintf("NodeClaim created from the CURRENT template right after a hashed edit, launched as %s, is reported Drifted (%s) once the hash controller has caught up  [NodePool requirement {%s}]", launch, got, oracle.ReqString(req)), map[string]any{"nodepool_requirement": req, "launch": launch})
			}
		}()
		// (00) a write to the NodeClaim FAILS once somewhere between launch and initialization (every position), the
		// controller retries, and the NodeClaim — created from the unchanged NodePool — must still not be drifted
		for n := 1; n <= 7; n++ {
			env, nc, _ := build()
			if nc == nil {
				break
			}
			w := env.W
			lc := lifecycle.NewController(w.Clock, w.Client, w.CP, w.Rec, nodepoolhealth.NewState(), nil)
			writes, failedCall := 0, ""
			w.Client.Hook = func(c *world.Call) error {
				if c.Kind == "NodeClaim" && (c.Verb == "patch" || c.Verb == "status-patch" || c.Verb == "update" || c.Verb == "status-update") {
					writes++
					if writes == n {
						failedCall = c.String()
						return apierrors.NewInternalError(fmt.Errorf("injected transient failure"))
					}
				}
				return nil
			}
			rec := func() {
				if cur := w.GetNodeClaim(nc.Name); cur != nil {
					_, _ = lc.Reconcile(w.Ctx, cur)
				}
			}
			rec()
			rec()
			rec()
			cur := w.GetNodeClaim(nc.Name)
			if cur == nil || cur.Status.ProviderID == "" || w.CP.Instance(cur.Status.ProviderID) == nil {
				continue
			}
			nodeName := "node-" + nc.Name
			w.KubeletRegister(cur, world.RegisterOpts{NotReadyTaint: true})
			rec()
			rec()
			w.KubeletReady(nodeName)
			w.RemoveStartupTaints(nodeName, cur)
			w.ReportExtended(nodeName, cur)
			rec()
			rec()
			w.Client.Hook = nil
			rec()
			rec()
			if failedCall == "" {
				break // fewer than n writes happen in a launch: every position has been covered
			}
			dc := nodeclaimdisruption.NewController(w.Clock, w.Client, w.CP)
			_, _ = dc.Reconcile(w.Ctx, w.GetNodeClaim(nc.Name))
			l.Eval()
			if got := driftedOf(w.GetNodeClaim(nc.Name)); got != "" {
				l.Violation("self-inflicted drift: "+got+" (after a failed NodeClaim write during launch)", fmt.Sprintf("write #%d to the NodeClaim (%s) failed once and was retried; the NodeClaim, created from the unchanged NodePool, is reported Drifted (%s); labels %v  [NodePool requirement {%s}]", n, failedCall, got, w.GetNodeClaim(nc.Name).Labels, oracle.ReqString(req)), map[string]any{"nodepool_requirement": req, "failed_write": failedCall})
				break
			}
		}
		k := len(env0.W.CP.Permitted(nc0))
		if k > maxLaunch {
			k = maxLaunch
		}
		desc := fmt.Sprintf("NodePool requirement {%s}, pod %s", oracle.ReqString(req), c13PodShapes[shapes[d[1]]].name)
		for pick := 0; pick < k; pick++ {
			env, nc, _ := build()
			if nc == nil {
				continue
			}
			w := env.W
			lc := lifecycle.NewController(w.Clock, w.Client, w.CP, w.Rec, nodepoolhealth.NewState(), nil)
			launch, ok := advance(w, lc, nc.Name, "initialized", pick)
			if !ok {
				l.Outcome("launch-failed")
				continue
			}
			dc := nodeclaimdisruption.NewController(w.Clock, w.Client, w.CP)
			rec := func() string {
				_, _ = dc.Reconcile(w.Ctx, w.GetNodeClaim(nc.Name))
				return driftedOf(w.GetNodeClaim(nc.Name))
			}
			l.Eval()
			l.NontrivialH(ev.H(fmt.Sprintf("drift/%d/%d", idx, pick)))
			// (1) freshly created and launched: not drifted, now and after the instance-type check window opens
			if got := rec(); got != "" {
				l.Violation("self-inflicted drift: "+got, fmt.Sprintf("fresh NodeClaim launched as %s is reported Drifted (%s)  [%s; labels %v]", launch, got, desc, w.GetNodeClaim(nc.Name).Labels), map[string]any{"nodepool_requirement": req, "launch": launch})
				continue
			}
			w.Clock.Step(2 * time.Hour)
			if got := rec(); got != "" {
				l.Violation("self-inflicted drift after 2h: "+got, fmt.Sprintf("NodeClaim launched as %s is reported Drifted (%s) two hours later with nothing changed  [%s]", launch, got, desc), map[string]any{"nodepool_requirement": req, "launch": launch})
				continue
			}
			// (2) the NodePool now excludes the zone the node runs in -> RequirementsDrifted
			cur := &v1.NodePool{}
			must(w.Raw.Get(w.Ctx, clientKey("", "default"), cur))
			zone := w.GetNodeClaim(nc.Name).Labels[corev1.LabelTopologyZone]
			saved := cur.DeepCopy()
			cur.Spec.Template.Spec.Requirements = append(cur.Spec.Template.Spec.Requirements, oracle.R(corev1.LabelTopologyZone, corev1.NodeSelectorOpNotIn, zone))
			w.EnvUpdate(cur)
			if got := rec(); got != "RequirementsDrifted" {
				l.Violation("requirements drift not reported", fmt.Sprintf("NodePool now requires zone NotIn [%s] but the NodeClaim in that zone is reported Drifted=%q  [%s launch=%s]", zone, got, desc, launch), map[string]any{"nodepool_requirement": req, "launch": launch})
			}
			saved.ResourceVersion = cur.ResourceVersion
			w.EnvUpdate(saved)
			if got := rec(); got != "" {
				l.Violation("drift condition not cleared when the NodePool is restored", fmt.Sprintf("Drifted=%q after the requirement edit was reverted  [%s]", got, desc), nil)
			}
			// (2b) upgrade across a hash VERSION: NodePool and NodeClaim both still carry the previous version and the same
			// old-scheme hash (nothing was edited). Whichever of the drift controller and the hash controller's migration
			// runs first, no drift may be reported, before or after the migration.
			for _, first := range []string{"drift-controller", "hash-controller"} {
				must(w.Raw.Get(w.Ctx, clientKey("", "default"), cur))
				cur.Annotations[v1.NodePoolHashVersionAnnotationKey], cur.Annotations[v1.NodePoolHashAnnotationKey] = "v-previous", "hash-under-the-previous-scheme"
				w.EnvUpdate(cur)
				old := w.GetNodeClaim(nc.Name)
				old.Annotations[v1.NodePoolHashVersionAnnotationKey], old.Annotations[v1.NodePoolHashAnnotationKey] = "v-previous", "hash-under-the-previous-scheme"
				w.EnvUpdate(old)
				if first == "drift-controller" {
					if got := rec(); got != "" {
						l.Violation("static drift reported across a hash-version upgrade", fmt.Sprintf("NodePool and NodeClaim both carry the previous hash version with equal hashes, nothing was edited, yet Drifted=%q before the hash controller migrated them  [%s launch=%s]", got, desc, launch), map[string]any{"nodepool_requirement": req, "launch": launch})
					}
				}
				must(w.Raw.Get(w.Ctx, clientKey("", "default"), cur))
				_, _ = nodepoolhash.NewController(w.Client, w.CP).Reconcile(w.Ctx, cur)
				if got := rec(); got != "" {
					l.Violation("static drift reported across a hash-version upgrade", fmt.Sprintf("after the hash controller migrated NodePool and NodeClaim from the previous hash version (%s first; nothing was edited) Drifted=%q  [%s launch=%s]", first, got, desc, launch), map[string]any{"nodepool_requirement": req, "launch": launch})
					// leave the condition behind so that the later steps see the real state
				}
			}
			// (3) a hashed field changes and the real hash controller runs -> NodePoolDrifted
			must(w.Raw.Get(w.Ctx, clientKey("", "default"), cur))
			cur.Spec.Template.Labels["env"] = "dev"
			w.EnvUpdate(cur)
			hc := nodepoolhash.NewController(w.Client, w.CP)
			must(w.Raw.Get(w.Ctx, clientKey("", "default"), cur))
			_, _ = hc.Reconcile(w.Ctx, cur)
			if got := rec(); got != "NodePoolDrifted" {
				l.Violation("static drift not reported", fmt.Sprintf("template label changed and hash controller ran, but Drifted=%q  [%s launch=%s]", got, desc, launch), nil)
			}
			// (4) different hash version on the NodeClaim -> no static drift
			ncur := w.GetNodeClaim(nc.Name)
			ncur.Annotations[v1.NodePoolHashVersionAnnotationKey] = "v0-other"
			w.EnvUpdate(ncur)
			if got := rec(); got == "NodePoolDrifted" {
				l.Violation("static drift reported across hash versions", fmt.Sprintf("NodeClaim carries hash version v0-other, NodePool %s, yet Drifted=NodePoolDrifted  [%s]", v1.NodePoolHashVersion, desc), nil)
			}
			l.Outcome("checked")
			if idx == 9 && pick == 0 {
				l.Sample(map[string]any{"case": desc, "launch": launch, "labels": w.GetNodeClaim(nc.Name).Labels})
			}
		}
	})
}

func init() {
	register("C15", "exploration", func(r *ev.Rec) {
		r.Rule = "(a) 3 base NodePool templates (full / minimal / zero-valued durations) x every single-field edit from a closed list: edits of template labels, annotations, taints, startupTaints, nodeClassRef.{group,kind,name}, terminationGracePeriod in {unset,0s,30s,1m}, expireAfter in {Never,0s,10m,1h} must change NodePool.Hash(); edits of budgets, requirements, limits, weight, consolidation settings, list/map order, metadata and status must not. " +
			"(b) every satisfiable single-requirement NodePool on a custom / provider key x pods constraining that key: hash controller -> provisioner -> NodeClaim -> real lifecycle controller with EVERY permitted launch (up to 4/12) -> real nodeclaim.disruption controller: never Drifted when fresh (also 2h later, when created between a hashed template edit and the hash controller's next run, and when one of the NodeClaim writes between launch and initialization failed once and was retried — every position); RequirementsDrifted when the NodePool is edited to exclude the node's zone and cleared when restored; never across an upgrade from a previous hash version (drift controller or the hash controller's migration first); NodePoolDrifted after a hashed edit + real hash controller; not across hash versions. non-trivial = distinct (base, effective edit) / (pool requirement, pod, launch)"
		r.Assumptions = []string{"provider-side IsDrifted returns no drift", "NodePools no label value can satisfy are excluded from (b)"}
		c15Hash(r)
		c15World(r)
	})
}

var _ = math.MaxInt64
var _ = strings.Join
