package checks

import (
	"fmt"
	"k8s.io/apimachinery/pkg/api/resource"
	"sort"
	"strings"
	"time"

	appsv1 "k8s.io/api/apps/v1"
	corev1 "k8s.io/api/core/v1"
	storagev1 "k8s.io/api/storage/v1"
	metav1 "k8s.io/apimachinery/pkg/apis/meta/v1"
	"k8s.io/apimachinery/pkg/types"
	"sigs.k8s.io/controller-runtime/pkg/client"

	v1 "sigs.k8s.io/karpenter/pkg/apis/v1"
	"sigs.k8s.io/karpenter/pkg/controllers/state"
	"sigs.k8s.io/karpenter/pkg/scheduling"

	"verif/internal/enum"
	"verif/internal/ev"
	"verif/internal/explore"
	"verif/world"
)

// C11 — after the latest version of every object has been observed, the cluster cache equals a fresh recomputation.

type ckey struct{ kind, ns, name string }

type c11Step struct {
	name string
	do   func(x *c11Run)
	keys []ckey // keys whose informer is notified by this mutation
}

type c11Run struct {
	w       *world.World
	inf     *world.Informers
	marks   map[string]bool // provider ids explicitly marked for deletion (in-memory input)
	keys    map[ckey]bool
	history []string
}

func nodeKey(n string) ckey  { return ckey{"Node", "", n} }
func claimKey(n string) ckey { return ckey{"NodeClaim", "", n} }
func podKey(n string) ckey   { return ckey{"Pod", "default", n} }
func dsKey(n string) ckey    { return ckey{"DaemonSet", "default", n} }

func c11Claim(name, pool, pid string) *v1.NodeClaim {
	nc := &v1.NodeClaim{ObjectMeta: metav1.ObjectMeta{Name: name, UID: types.UID("uid-" + name), Labels: map[string]string{v1.NodePoolLabelKey: pool, corev1.LabelInstanceTypeStable: "m", v1.NodeClassLabelKey(world.NodeClassRef().GroupKind()): "default"}, Finalizers: []string{v1.TerminationFinalizer}}}
	nc.Spec.NodeClassRef = world.NodeClassRef()
	nc.Status.ProviderID = pid
	if pid != "" {
		nc.Status.Capacity = world.RL(4000, 8192)
		nc.Status.Allocatable = world.RL(3900, 8000)
		nc.StatusConditions().SetTrue(v1.ConditionTypeLaunched)
	}
	return nc
}

func c11Node(name, pool, pid string, initialized bool) *corev1.Node {
	n := &corev1.Node{ObjectMeta: metav1.ObjectMeta{Name: name, UID: types.UID("uid-" + name), Labels: map[string]string{corev1.LabelHostname: name}},
		Spec: corev1.NodeSpec{ProviderID: pid}, Status: corev1.NodeStatus{Capacity: world.RL(4000, 8192), Allocatable: world.RL(3900, 8000)}}
	if pool != "" {
		n.Labels[v1.NodePoolLabelKey] = pool
		n.Labels[corev1.LabelInstanceTypeStable] = "m"
		n.Labels[v1.NodeClassLabelKey(world.NodeClassRef().GroupKind())] = "default"
		n.Labels[v1.NodeRegisteredLabelKey] = "true"
		if initialized {
			n.Labels[v1.NodeInitializedLabelKey] = "true"
		}
	}
	return n
}

func c11Pod(name, node string, kind string) *corev1.Pod {
	p := world.Pod(name, 700, world.Bound(node))
	switch kind {
	case "cost":
		p.Annotations = map[string]string{corev1.PodDeletionCost: "134217728"} // +1.0
		world.OwnedBy("ReplicaSet", "rs")(p)
	case "hostport":
		hostPort(8080, "")(p)
		world.OwnedBy("ReplicaSet", "rs")(p)
	case "daemon":
		world.OwnedBy("DaemonSet", "ds")(p)
	case "antiaffinity":
		p.Spec.Affinity = &corev1.Affinity{PodAntiAffinity: &corev1.PodAntiAffinity{RequiredDuringSchedulingIgnoredDuringExecution: []corev1.PodAffinityTerm{{TopologyKey: corev1.LabelHostname, LabelSelector: &metav1.LabelSelector{MatchLabels: map[string]string{"a": "b"}}}}}}
	}
	return p
}

func mut(name string, keys []ckey, do func(x *c11Run)) c11Step {
	return c11Step{name: name, do: do, keys: keys}
}

func addObj(o client.Object) func(x *c11Run) {
	return func(x *c11Run) { x.w.Add(o.DeepCopyObject().(client.Object)) }
}
func delObj(o client.Object) func(x *c11Run) { return func(x *c11Run) { x.w.EnvDelete(o) } }
func updNode(name string, f func(n *corev1.Node)) func(x *c11Run) {
	return func(x *c11Run) {
		if n := x.w.GetNode(name); n != nil {
			f(n)
			x.w.EnvUpdate(n)
		}
	}
}
func updClaim(name string, f func(n *v1.NodeClaim)) func(x *c11Run) {
	return func(x *c11Run) {
		if n := x.w.GetNodeClaim(name); n != nil {
			f(n)
			x.w.EnvUpdate(n)
		}
	}
}
func updPod(name string, f func(p *corev1.Pod)) func(x *c11Run) {
	return func(x *c11Run) {
		p := &corev1.Pod{}
		if err := x.w.Raw.Get(x.w.Ctx, client.ObjectKey{Namespace: "default", Name: name}, p); err == nil {
			f(p)
			x.w.EnvUpdate(p)
		}
	}
}

var c11Scripts = map[string][]c11Step{
	"claim-launch-node-pods-then-claim-event": {
		mut("create C1 unlaunched", []ckey{claimKey("c1")}, addObj(c11Claim("c1", "a", ""))),
		mut("launch C1", []ckey{claimKey("c1")}, updClaim("c1", func(n *v1.NodeClaim) { *n = *mergeClaim(n, c11Claim("c1", "a", "pid1")) })),
		mut("node N1 appears initialized", []ckey{nodeKey("n1")}, addObj(c11Node("n1", "a", "pid1", true))),
		mut("bind P1 (deletion cost)", []ckey{podKey("p1")}, addObj(c11Pod("p1", "n1", "cost"))),
		mut("bind D (daemon)", []ckey{podKey("d")}, addObj(c11Pod("d", "n1", "daemon"))),
		mut("C1 gets a status condition", []ckey{claimKey("c1")}, updClaim("c1", func(n *v1.NodeClaim) { n.StatusConditions().SetTrue(v1.ConditionTypeRegistered) })),
		mut("bind P2 (host port)", []ckey{podKey("p2")}, addObj(c11Pod("p2", "n1", "hostport"))),
	},
	"unmanaged-node-gets-provider-id": {
		mut("node U1 without provider id", []ckey{nodeKey("u1")}, addObj(c11Node("u1", "", "", true))),
		mut("bind P1 to U1", []ckey{podKey("p1")}, addObj(c11Pod("p1", "u1", "cost"))),
		mut("cloud controller sets provider id", []ckey{nodeKey("u1")}, updNode("u1", func(n *corev1.Node) { n.Spec.ProviderID = "pidu" })),
		mut("bind P2 to U1", []ckey{podKey("p2")}, addObj(c11Pod("p2", "u1", "hostport"))),
	},
	"managed-node-without-provider-id-then-set": {
		mut("create C1 launched", []ckey{claimKey("c1")}, addObj(c11Claim("c1", "a", "pid1"))),
		mut("node N1 appears WITHOUT provider id", []ckey{nodeKey("n1")}, addObj(c11Node("n1", "a", "", false))),
		mut("bind D to N1", []ckey{podKey("d")}, addObj(c11Pod("d", "n1", "daemon"))),
		mut("provider id set on N1", []ckey{nodeKey("n1")}, updNode("n1", func(n *corev1.Node) { n.Spec.ProviderID = "pid1" })),
		mut("N1 initialized", []ckey{nodeKey("n1")}, updNode("n1", func(n *corev1.Node) { n.Labels[v1.NodeInitializedLabelKey] = "true" })),
	},
	"pod-completes-deleted-recreated-elsewhere": {
		mut("C1+N1", []ckey{claimKey("c1"), nodeKey("n1")}, func(x *c11Run) { addObj(c11Claim("c1", "a", "pid1"))(x); addObj(c11Node("n1", "a", "pid1", true))(x) }),
		mut("C2+N2", []ckey{claimKey("c2"), nodeKey("n2")}, func(x *c11Run) { addObj(c11Claim("c2", "b", "pid2"))(x); addObj(c11Node("n2", "b", "pid2", true))(x) }),
		mut("bind P1 to N1", []ckey{podKey("p1")}, addObj(c11Pod("p1", "n1", "hostport"))),
		mut("P1 succeeds", []ckey{podKey("p1")}, updPod("p1", func(p *corev1.Pod) { p.Status.Phase = corev1.PodSucceeded })),
		mut("P1 deleted", []ckey{podKey("p1")}, delObj(c11Pod("p1", "n1", "hostport"))),
		mut("P1 recreated on N2", []ckey{podKey("p1")}, addObj(c11Pod("p1", "n2", "cost"))),
	},
	"pod-replaced-on-other-node-without-completion": {
		mut("C1+N1", []ckey{claimKey("c1"), nodeKey("n1")}, func(x *c11Run) { addObj(c11Claim("c1", "a", "pid1"))(x); addObj(c11Node("n1", "a", "pid1", true))(x) }),
		mut("C2+N2", []ckey{claimKey("c2"), nodeKey("n2")}, func(x *c11Run) { addObj(c11Claim("c2", "a", "pid2"))(x); addObj(c11Node("n2", "a", "pid2", true))(x) }),
		mut("bind P1 to N1", []ckey{podKey("p1")}, addObj(c11Pod("p1", "n1", "hostport"))),
		mut("P1 deleted and recreated on N2", []ckey{podKey("p1")}, func(x *c11Run) { delObj(c11Pod("p1", "n1", "hostport"))(x); addObj(c11Pod("p1", "n2", "hostport"))(x) }),
		mut("bind P2 to N1", []ckey{podKey("p2")}, addObj(c11Pod("p2", "n1", "cost"))),
	},
	"deletions-node-first-and-claim-first": {
		mut("C1+N1", []ckey{claimKey("c1"), nodeKey("n1")}, func(x *c11Run) { addObj(c11Claim("c1", "a", "pid1"))(x); addObj(c11Node("n1", "a", "pid1", true))(x) }),
		mut("C2+N2", []ckey{claimKey("c2"), nodeKey("n2")}, func(x *c11Run) { addObj(c11Claim("c2", "a", "pid2"))(x); addObj(c11Node("n2", "a", "pid2", true))(x) }),
		mut("bind P1 to N1, P2 to N2", []ckey{podKey("p1"), podKey("p2")}, func(x *c11Run) { addObj(c11Pod("p1", "n1", "cost"))(x); addObj(c11Pod("p2", "n2", "hostport"))(x) }),
		mut("N1 deleted", []ckey{nodeKey("n1")}, delObj(c11Node("n1", "a", "pid1", true))),
		mut("C2 deleted", []ckey{claimKey("c2")}, delObj(c11Claim("c2", "a", "pid2"))),
		mut("C1 deleted", []ckey{claimKey("c1")}, delObj(c11Claim("c1", "a", "pid1"))),
		mut("P2 deleted", []ckey{podKey("p2")}, delObj(c11Pod("p2", "n2", "hostport"))),
	},
	"deletion-marks-and-deleting-claim": {
		mut("C1+N1", []ckey{claimKey("c1"), nodeKey("n1")}, func(x *c11Run) { addObj(c11Claim("c1", "a", "pid1"))(x); addObj(c11Node("n1", "a", "pid1", true))(x) }),
		mut("C2+N2", []ckey{claimKey("c2"), nodeKey("n2")}, func(x *c11Run) { addObj(c11Claim("c2", "a", "pid2"))(x); addObj(c11Node("n2", "a", "pid2", true))(x) }),
		mut("mark pid1 for deletion", nil, func(x *c11Run) {
			// marking a provider id the cache does not know is a no-op by design (callers mark nodes they got from the cache)
			known := false
			for n := range x.inf.Cluster.Nodes() {
				if n.ProviderID() == "pid1" {
					known = true
				}
			}
			if known {
				x.inf.Cluster.MarkForDeletion("pid1")
				x.marks["pid1"] = true
			}
		}),
		mut("C1 status update", []ckey{claimKey("c1")}, updClaim("c1", func(n *v1.NodeClaim) { n.StatusConditions().SetTrue(v1.ConditionTypeRegistered) })),
		mut("C2 starts deleting", []ckey{claimKey("c2")}, updClaim("c2", func(n *v1.NodeClaim) { dt := metaT(world.Epoch); n.DeletionTimestamp = &dt })),
		mut("N1 label update", []ckey{nodeKey("n1")}, updNode("n1", func(n *corev1.Node) { n.Labels["x"] = "y" })),
		mut("unmark pid1", nil, func(x *c11Run) { x.inf.Cluster.UnmarkForDeletion("pid1"); delete(x.marks, "pid1") }),
	},
	// a command is rolled back (unmark) after the deletion of the marked NodeClaim has already been observed
	"mark-claim-deleting-unmark": {
		mut("C1+N1", []ckey{claimKey("c1"), nodeKey("n1")}, func(x *c11Run) { addObj(c11Claim("c1", "a", "pid1"))(x); addObj(c11Node("n1", "a", "pid1", true))(x) }),
		mut("C2+N2", []ckey{claimKey("c2"), nodeKey("n2")}, func(x *c11Run) { addObj(c11Claim("c2", "a", "pid2"))(x); addObj(c11Node("n2", "a", "pid2", true))(x) }),
		mut("mark pid1 for deletion", nil, func(x *c11Run) {
			known := false
			for n := range x.inf.Cluster.Nodes() {
				if n.ProviderID() == "pid1" {
					known = true
				}
			}
			if known {
				x.inf.Cluster.MarkForDeletion("pid1")
				x.marks["pid1"] = true
			}
		}),
		mut("C1 starts deleting", []ckey{claimKey("c1")}, updClaim("c1", func(n *v1.NodeClaim) { dt := metaT(world.Epoch); n.DeletionTimestamp = &dt })),
		mut("unmark pid1", nil, func(x *c11Run) { x.inf.Cluster.UnmarkForDeletion("pid1"); delete(x.marks, "pid1") }),
		mut("N2 label update", []ckey{nodeKey("n2")}, updNode("n2", func(n *corev1.Node) { n.Labels["x"] = "y" })),
	},
	// a pod that was already counted CHANGES in place (same name, same node): its deletion cost is set later, it is resized,
	// and it is replaced by a different pod of the same name on the same node with the deletion never observed
	"pod-changed-after-it-was-counted": {
		mut("C1+N1", []ckey{claimKey("c1"), nodeKey("n1")}, func(x *c11Run) { addObj(c11Claim("c1", "a", "pid1"))(x); addObj(c11Node("n1", "a", "pid1", true))(x) }),
		mut("bind P1 to N1", []ckey{podKey("p1")}, func(x *c11Run) { addObj(c11Pod("p1", "n1", "hostport"))(x) }),
		mut("P1 gets a deletion cost", []ckey{podKey("p1")}, updPod("p1", func(p *corev1.Pod) {
			if p.Annotations == nil {
				p.Annotations = map[string]string{}
			}
			p.Annotations[corev1.PodDeletionCost] = "134217728"
		})),
		mut("P1 resized to 1400m", []ckey{podKey("p1")}, updPod("p1", func(p *corev1.Pod) {
			p.Spec.Containers[0].Resources.Requests[corev1.ResourceCPU] = resource.MustParse("1400m")
		})),
		mut("P1 replaced by another pod of the same name on N1 (deletion coalesced)", []ckey{podKey("p1")}, func(x *c11Run) {
			old := &corev1.Pod{}
			if err := x.w.Raw.Get(x.w.Ctx, clientKey("default", "p1"), old); err == nil {
				x.w.EnvDelete(old)
			}
			np := c11Pod("p1", "n1", "cost")
			np.UID = "pod-p1-second"
			np.Spec.Containers[0].Resources.Requests[corev1.ResourceCPU] = resource.MustParse("300m")
			x.w.Add(np)
		}),
	},
	// two pods on one node mount the SAME claim; one of them goes away: the volume stays attached for the other
	"shared-pvc-one-pod-deleted": {
		mut("C1+N1 with CSINode limit 1", []ckey{claimKey("c1"), nodeKey("n1")}, func(x *c11Run) {
			addObj(c11Claim("c1", "a", "pid1"))(x)
			one := int32(1)
			x.w.Add(&storagev1.CSINode{ObjectMeta: metav1.ObjectMeta{Name: "n1"}, Spec: storagev1.CSINodeSpec{Drivers: []storagev1.CSINodeDriver{{Name: "csi.x", NodeID: "n1", Allocatable: &storagev1.VolumeNodeResources{Count: &one}}}}})
			addObj(c11Node("n1", "a", "pid1", true))(x)
		}),
		mut("bind two pods sharing one claim to N1", []ckey{podKey("pv1"), podKey("pv2")}, func(x *c11Run) {
			sc := "sc"
			x.w.Add(&storagev1.StorageClass{ObjectMeta: metav1.ObjectMeta{Name: sc}, Provisioner: "csi.x"},
				&corev1.PersistentVolumeClaim{ObjectMeta: metav1.ObjectMeta{Name: "claim", Namespace: "default"}, Spec: corev1.PersistentVolumeClaimSpec{StorageClassName: &sc}})
			for _, n := range []string{"pv1", "pv2"} {
				p := c11Pod(n, "n1", "cost")
				pvcVol("claim")(p)
				x.w.Add(p)
			}
		}),
		mut("pv1 deleted", []ckey{podKey("pv1")}, func(x *c11Run) {
			p := &corev1.Pod{}
			must(x.w.Raw.Get(x.w.Ctx, clientKey("default", "pv1"), p))
			x.w.EnvDelete(p)
		}),
		mut("C1 status update", []ckey{claimKey("c1")}, updClaim("c1", func(n *v1.NodeClaim) { n.StatusConditions().SetTrue(v1.ConditionTypeRegistered) })),
	},
	// a pod that is being deleted gracefully (deletionTimestamp set, still Running) keeps its requests, host ports and
	// deletion cost on the node until it is really gone, whichever of the Node / Pod reconcilers looked last
	"pod-terminating-gracefully-while-node-is-updated": {
		mut("C1+N1", []ckey{claimKey("c1"), nodeKey("n1")}, func(x *c11Run) {
			addObj(c11Claim("c1", "a", "pid1"))(x)
			addObj(c11Node("n1", "a", "pid1", true))(x)
		}),
		mut("bind P1 (deletion cost), P2 (host port)", []ckey{podKey("p1"), podKey("p2")}, func(x *c11Run) {
			addObj(c11Pod("p1", "n1", "cost"))(x)
			addObj(c11Pod("p2", "n1", "hostport"))(x)
		}),
		mut("P1 deleted gracefully (still running)", []ckey{podKey("p1")}, updPod("p1", func(p *corev1.Pod) {
			dt := metaT(world.Epoch.Add(30 * time.Second))
			p.DeletionTimestamp = &dt
			p.Finalizers = []string{"verif.io/terminating"}
		})),
		mut("N1 heartbeat", []ckey{nodeKey("n1")}, updNode("n1", func(n *corev1.Node) { n.Labels["beat"] = "1" })),
		mut("P2 deleted gracefully (still running)", []ckey{podKey("p2")}, updPod("p2", func(p *corev1.Pod) {
			dt := metaT(world.Epoch.Add(40 * time.Second))
			p.DeletionTimestamp = &dt
			p.Finalizers = []string{"verif.io/terminating"}
		})),
		mut("P1 gone", []ckey{podKey("p1")}, func(x *c11Run) {
			p := &corev1.Pod{}
			if err := x.w.Raw.Get(x.w.Ctx, clientKey("default", "p1"), p); err == nil {
				x.w.EnvDelete(p)
			}
		}),
		mut("N1 heartbeat 2", []ckey{nodeKey("n1")}, updNode("n1", func(n *corev1.Node) { n.Labels["beat"] = "2" })),
	},
	// the DaemonSet cache (which pod stands for the daemonset when overhead is computed) follows the NEWEST pod the
	// daemonset controls; the state.daemonset controller sees a DaemonSet when it is created and then re-polls it every
	// minute — the re-poll is modelled as a notification of the DaemonSet key whenever one of its pods changed
	"daemonset-pod-cache-follows-the-newest-pod": {
		mut("C1+N1 and DaemonSet ds", []ckey{claimKey("c1"), nodeKey("n1"), dsKey("ds")}, func(x *c11Run) {
			addObj(c11Claim("c1", "a", "pid1"))(x)
			addObj(c11Node("n1", "a", "pid1", true))(x)
			x.w.Add(world.DaemonSet("ds", 700))
		}),
		mut("daemon pod d1 lands on N1", []ckey{podKey("d1"), dsKey("ds")}, addObj(c11Pod("d1", "n1", "daemon"))),
		mut("rolling update: d1 replaced by the newer, larger d2", []ckey{podKey("d1"), podKey("d2"), dsKey("ds")}, func(x *c11Run) {
			old := &corev1.Pod{}
			if err := x.w.Raw.Get(x.w.Ctx, clientKey("default", "d1"), old); err == nil {
				x.w.EnvDelete(old)
			}
			np := c11Pod("d2", "n1", "daemon")
			np.CreationTimestamp = metaT(world.Epoch.Add(time.Minute))
			np.Spec.Containers[0].Resources.Requests[corev1.ResourceCPU] = resource.MustParse("900m")
			x.w.Add(np)
		}),
		mut("an unrelated pod of another owner appears in the namespace", []ckey{podKey("p9")}, addObj(c11Pod("p9", "n1", "cost"))),
		mut("DaemonSet ds deleted, d2 goes with it", []ckey{podKey("d2"), dsKey("ds")}, func(x *c11Run) {
			ds := &appsv1.DaemonSet{}
			if err := x.w.Raw.Get(x.w.Ctx, clientKey("default", "ds"), ds); err == nil {
				x.w.EnvDelete(ds)
			}
			p := &corev1.Pod{}
			if err := x.w.Raw.Get(x.w.Ctx, clientKey("default", "d2"), p); err == nil {
				x.w.EnvDelete(p)
			}
		}),
	},
	"csinode-limit-and-pvc": {
		mut("C1+N1 with CSINode limit 1", []ckey{claimKey("c1"), nodeKey("n1")}, func(x *c11Run) {
			addObj(c11Claim("c1", "a", "pid1"))(x)
			one := int32(1)
			x.w.Add(&storagev1.CSINode{ObjectMeta: metav1.ObjectMeta{Name: "n1"}, Spec: storagev1.CSINodeSpec{Drivers: []storagev1.CSINodeDriver{{Name: "csi.x", NodeID: "n1", Allocatable: &storagev1.VolumeNodeResources{Count: &one}}}}})
			addObj(c11Node("n1", "a", "pid1", true))(x)
		}),
		mut("bind PV pod to N1", []ckey{podKey("pv")}, func(x *c11Run) {
			sc := "sc"
			x.w.Add(&storagev1.StorageClass{ObjectMeta: metav1.ObjectMeta{Name: sc}, Provisioner: "csi.x"},
				&corev1.PersistentVolumeClaim{ObjectMeta: metav1.ObjectMeta{Name: "claim", Namespace: "default"}, Spec: corev1.PersistentVolumeClaimSpec{StorageClassName: &sc}})
			p := c11Pod("pv", "n1", "cost")
			pvcVol("claim")(p)
			x.w.Add(p)
		}),
		mut("C1 status update", []ckey{claimKey("c1")}, updClaim("c1", func(n *v1.NodeClaim) { n.StatusConditions().SetTrue(v1.ConditionTypeRegistered) })),
		mut("N1 label update", []ckey{nodeKey("n1")}, updNode("n1", func(n *corev1.Node) { n.Labels["x"] = "y" })),
	},
}

func mergeClaim(old, launched *v1.NodeClaim) *v1.NodeClaim {
	out := old.DeepCopy()
	out.Status = launched.Status
	return out
}

// digestCluster observes a cluster cache through its exported accessors only.
func digestCluster(w *world.World, c *state.Cluster) []string {
	var out []string
	pools := map[string]bool{}
	probe := world.Pod("probe", 1, hostPort(8080, ""))
	probePorts := scheduling.GetHostPorts(probe) // same representation as the pods of the scenarios (protocol left empty)
	for n := range c.Nodes() {
		port := "free"
		if err := n.HostPortUsage().Conflicts(probe, probePorts); err != nil {
			port = "8080-in-use"
		}
		vol := "ok"
		if err := n.VolumeUsage().ExceedsLimits(scheduling.Volumes{"csi.x": {"default/other-claim": {}}}); err != nil {
			vol = "csi.x-full"
		}
		pool := n.Labels()[v1.NodePoolLabelKey]
		pools[pool] = true
		pr, dr := n.PodRequests(), n.DaemonSetRequests()
		out = append(out, fmt.Sprintf("node %s node=%v claim=%v podcpu=%d dscpu=%d cost=%.2f marked=%v port=%s vol=%s pool=%s init=%v",
			n.ProviderID(), n.Node != nil, n.NodeClaim != nil, pr.Cpu().MilliValue(), dr.Cpu().MilliValue(), n.DisruptionCost(), n.MarkedForDeletion(), port, vol, pool, n.Initialized()))
	}
	for _, p := range []string{"a", "b"} {
		r := c.NodePoolResourcesFor(p)
		nodes := r[corev1.ResourceName("nodes")]
		a, d, pd := c.NodePoolState.GetNodeCount(p)
		out = append(out, fmt.Sprintf("pool %s cpu=%d nodes=%d active=%d deleting=%d pending=%d", p, r.Cpu().MilliValue(), nodes.Value(), a, d, pd))
	}
	for _, dn := range []string{"ds"} {
		cached := "none"
		if p := c.GetDaemonSetPod(&appsv1.DaemonSet{ObjectMeta: metav1.ObjectMeta{Name: dn, Namespace: "default"}}); p != nil {
			cached = fmt.Sprintf("%s cpu=%d", p.Name, p.Spec.Containers[0].Resources.Requests.Cpu().MilliValue())
		}
		out = append(out, fmt.Sprintf("daemonset %s cached-pod=%s", dn, cached))
	}
	anti := 0
	c.ForPodsWithAntiAffinity(func(p *corev1.Pod, n *corev1.Node) bool { anti++; return true })
	out = append(out, fmt.Sprintf("antiaffinity-pods=%d", anti))
	sort.Strings(out)
	return out
}

// reference recomputes the node set, per-node pod cpu and per-pool cpu directly from the API objects.
func c11Reference(x *c11Run) []string {
	w := x.w
	var out []string
	ncs := &v1.NodeClaimList{}
	nodes := &corev1.NodeList{}
	pods := &corev1.PodList{}
	must(w.Raw.List(w.Ctx, ncs))
	must(w.Raw.List(w.Ctx, nodes))
	must(w.Raw.List(w.Ctx, pods))
	type st struct {
		node  *corev1.Node
		claim *v1.NodeClaim
	}
	m := map[string]*st{}
	for i := range ncs.Items {
		if pid := ncs.Items[i].Status.ProviderID; pid != "" {
			if m[pid] == nil {
				m[pid] = &st{}
			}
			m[pid].claim = &ncs.Items[i]
		}
	}
	for i := range nodes.Items {
		n := &nodes.Items[i]
		pid := n.Spec.ProviderID
		managed := n.Labels[v1.NodePoolLabelKey] != ""
		if pid == "" {
			if managed {
				continue
			}
			pid = n.Name
		}
		if m[pid] == nil {
			m[pid] = &st{}
		}
		m[pid].node = n
	}
	poolCPU := map[string]int64{}
	poolNodes := map[string]int64{}
	for pid, s := range m {
		var cpu, ds int64
		cost := 1.0
		if s.node != nil {
			for i := range pods.Items {
				p := &pods.Items[i]
				if p.Spec.NodeName != s.node.Name || p.Status.Phase == corev1.PodSucceeded || p.Status.Phase == corev1.PodFailed {
					continue
				}
				cpu += p.Spec.Containers[0].Resources.Requests.Cpu().MilliValue()
				isDS := false
				for _, o := range p.OwnerReferences {
					if o.Kind == "DaemonSet" {
						isDS = true
					}
				}
				if isDS {
					ds += p.Spec.Containers[0].Resources.Requests.Cpu().MilliValue()
				} else {
					c := 1.0
					if p.Annotations[corev1.PodDeletionCost] == "134217728" {
						c = 2.0
					}
					cost += c
				}
			}
		}
		marked := x.marks[pid]
		if s.claim != nil && s.claim.DeletionTimestamp != nil {
			marked = true
		}
		if s.claim == nil && s.node != nil && s.node.DeletionTimestamp != nil {
			marked = true
		}
		pool := ""
		if s.node != nil && (s.claim == nil || s.node.Labels[v1.NodeRegisteredLabelKey] == "true") {
			pool = s.node.Labels[v1.NodePoolLabelKey]
		} else if s.claim != nil {
			pool = s.claim.Labels[v1.NodePoolLabelKey]
		}
		if pool != "" && !marked {
			poolCPU[pool] += 4000
			poolNodes[pool]++
		}
		out = append(out, fmt.Sprintf("ref %s node=%v claim=%v podcpu=%d dscpu=%d cost=%.2f marked=%v", pid, s.node != nil, s.claim != nil, cpu, ds, cost, marked))
	}
	for _, p := range []string{"a", "b"} {
		out = append(out, fmt.Sprintf("refpool %s cpu=%d nodes=%d", p, poolCPU[p], poolNodes[p]))
	}
	sort.Strings(out)
	return out
}

// refView projects a cache digest onto the fields the reference recomputes.
func refView(digest []string) []string {
	var out []string
	for _, l := range digest {
		if strings.HasPrefix(l, "node ") {
			f := strings.Fields(l)
			out = append(out, "ref "+strings.Join(f[1:8], " "))
		}
		if strings.HasPrefix(l, "pool ") {
			f := strings.Fields(l)
			out = append(out, "refpool "+strings.Join(f[1:4], " "))
		}
	}
	sort.Strings(out)
	return out
}

func permutations(n int) [][]int {
	if n == 1 {
		return [][]int{{0}}
	}
	var out [][]int
	for _, p := range permutations(n - 1) {
		for i := 0; i <= len(p); i++ {
			q := append(append(append([]int{}, p[:i]...), n-1), p[i:]...)
			out = append(out, q)
		}
	}
	return out
}

func (x *c11Run) deliverAll(inf *world.Informers, kindOrder []string, reverse bool) {
	keys := make([]ckey, 0, len(x.keys))
	for k := range x.keys {
		keys = append(keys, k)
	}
	rank := map[string]int{}
	for i, k := range kindOrder {
		rank[k] = i
	}
	sort.Slice(keys, func(i, j int) bool {
		if rank[keys[i].kind] != rank[keys[j].kind] {
			return rank[keys[i].kind] < rank[keys[j].kind]
		}
		if reverse {
			return keys[i].name > keys[j].name
		}
		return keys[i].name < keys[j].name
	})
	// level-triggered retry: a reconcile that asks to be requeued (e.g. pod whose node is not known yet) is retried
	for round := 0; round < 3; round++ {
		for _, k := range keys {
			_ = inf.Deliver(k.kind, k.ns, k.name)
		}
	}
}

func init() {
	register("C11", "model_checking", func(r *ev.Rec) {
		bound := 2
		if r.Tier == "thorough" {
			bound = 3
		}
		names := make([]string, 0, len(c11Scripts))
		for n := range c11Scripts {
			names = append(names, n)
		}
		sort.Strings(names)
		r.Rule = fmt.Sprintf("%d mutation scripts (launch / provider-id set late / pods completing, deleted, recreated under the same name elsewhere / Node and NodeClaim deletions in both orders / explicit deletion marks and deleting claims, a mark rolled back after the deletion was observed / CSINode limits, two pods sharing one claim of which one is deleted, a counted pod changing in place (deletion cost, resize, replaced under the same name on the same node) / two pools) are applied to the API; after every mutation each notified key is either delivered to the REAL informer reconciler at once (default) or deferred, and earlier keys may be re-delivered (duplicates); all delivery histories with <=%d such deviations are explored, each ending with the delivery of the still-unobserved keys in each of 12 orders (6 kind orders x 2 key orders, level-triggered retries). "+
			"Oracle, evaluated at EVERY point where the latest version of every object has been observed (not only at the end): the cache observed through exported accessors must equal (1) a fresh cache fed the final objects claims-first and (2) one fed nodes-and-pods-first, and (3) an independent recomputation of node set, per-node pod/daemon cpu, disruption cost, deletion marks and per-pool totals from the API objects. states = quiescent points checked; non-trivial = distinct (script, delivery history)", len(names), bound)
		r.Assumptions = []string{"deliveries are atomic (no preemption inside an informer reconcile)", "explicit deletion marks are in-memory inputs; the reference tracks them by provider id"}
		enum.RunEveryShard(r, int64(len(names)), func(i int64, l *ev.Local) {
			ex := &explore.Explorer{Bound: bound, MaxExecs: 400000, Stop: r.Expired, Shard: r.Shard, NShards: r.Shards}
			ex.Exec = c11MakeExec(names[i], l, bound)
			ex.Explore()
			noteDiverged(l, ex, "prefix")
			l.Transitions += int64(ex.Points)
			if ex.Capped {
				l.Outcome("exploration-capped")
				r.Exhaustive = false
			}
		})
	})
}

// c11MakeExec returns the function that executes ONE delivery history of the named script under the run's choices and
// judges it at every quiescent point.
func c11MakeExec(name string, l *ev.Local, bound int) func(run *explore.Run) {
	script := c11Scripts[name]
	kinds := []string{"NodeClaim", "Node", "Pod"}
	perms := permutations(3)
	_, _ = kinds, perms
	return func(run *explore.Run) {
		l.Mute = run.Replica
		w := world.New(world.Options{})
		w.CP.Catalog[""] = world.BuildCatalog(K1)
		w.Add(world.NodeClass(), world.NodePool("a"), world.NodePool("b"))
		x := &c11Run{w: w, inf: w.NewInformers(w.Cluster), marks: map[string]bool{}, keys: map[ckey]bool{}}
		pending := map[ckey]bool{}
		deliver := func(k ckey, verb string) {
			requeue, err := x.inf.DeliverR(k.kind, k.ns, k.name)
			x.history = append(x.history, verb+" "+k.kind+"/"+k.name)
			if requeue || err != nil {
				pending[k] = true // level-triggered: the controller will retry this key
			} else {
				delete(pending, k)
			}
		}
		checkpoints := 0
		checkpoint := func() {
			checkpoints++
			got := digestCluster(w, w.Cluster)
			fresh := func(order []string) []string {
				c := state.NewCluster(w.Clock, w.Client, w.CP)
				inf := w.NewInformers(c)
				x.deliverAll(inf, order, false)
				for pid := range x.marks {
					c.MarkForDeletion(pid)
				}
				return digestCluster(w, c)
			}
			report := func(sig, what string, have, want []string) {
				l.Violation(sig, fmt.Sprintf("%s  [script=%s history=%v]\n cache: %v\n  want: %v", what, name, x.history, diffLines(have, want), diffLines(want, have)), map[string]any{"script": name, "choices": run.Choices(), "history": append([]string{}, x.history...), "cache": have, "expected": want})
			}
			f1 := fresh([]string{"NodeClaim", "Node", "Pod"})
			f2 := fresh([]string{"Node", "Pod", "NodeClaim"})
			if strings.Join(f1, "\n") != strings.Join(f2, "\n") {
				report("fresh recomputation depends on the order objects are fed "+fieldDiff(f2, f1), "two from-scratch computations (claims-first vs nodes-and-pods-first) disagree", f2, f1)
			}
			if strings.Join(got, "\n") != strings.Join(f1, "\n") {
				report("cache differs from a fresh recomputation "+fieldDiff(got, f1), "every latest version has been observed, yet the cluster cache differs from a fresh cache fed the same objects", got, f1)
			}
			ref := c11Reference(x)
			if gv := refView(got); strings.Join(gv, "\n") != strings.Join(ref, "\n") {
				report("cache differs from the API-derived reference "+fieldDiff(gv, ref), "every latest version has been observed, yet the cluster cache differs from an independent recomputation from the API objects", gv, ref)
			}
		}
		for _, st := range script {
			st.do(x)
			x.history = append(x.history, st.name)
			for _, k := range st.keys {
				x.keys[k] = true
				pending[k] = true
			}
			for _, k := range st.keys {
				if run.Choose("deliver", 2, nil) == 0 {
					deliver(k, "deliver")
				} else {
					x.history = append(x.history, "defer "+k.kind+"/"+k.name)
				}
			}
			// optional: one deferred or duplicate delivery now (0 = none)
			var cands []ckey
			for k := range x.keys {
				cands = append(cands, k)
			}
			sort.Slice(cands, func(a, b int) bool { return cands[a].kind+cands[a].name < cands[b].kind+cands[b].name })
			if k := run.Choose("extra-delivery", len(cands)+1, nil); k > 0 {
				deliver(cands[k-1], "redeliver")
			}
			// keys that asked for a retry are retried once their turn comes; give them one round now
			for round := 0; round < 2 && len(pending) > 0; round++ {
				var retry []ckey
				for k := range pending {
					retry = append(retry, k)
				}
				sort.Slice(retry, func(a, b int) bool { return retry[a].kind+retry[a].name < retry[b].kind+retry[b].name })
				progressed := false
				for _, k := range retry {
					deferred := false
					for _, h := range x.history {
						if h == "defer "+k.kind+"/"+k.name {
							deferred = true
						}
					}
					if deferred {
						continue // explicitly deferred keys wait for the final phase
					}
					before := len(pending)
					deliver(k, "retry")
					if len(pending) < before {
						progressed = true
					}
				}
				if !progressed {
					break
				}
			}
			if len(pending) == 0 {
				checkpoint()
			}
		}
		// final phase: only the keys whose latest version has not been observed yet, in every kind order
		if len(pending) > 0 {
			fo := 0
			if len(pending) > 1 {
				fo = run.Choose("final-order", len(perms)*2, func(int) int { return 0 })
			}
			order := []string{kinds[perms[fo/2][0]], kinds[perms[fo/2][1]], kinds[perms[fo/2][2]]}
			rank := map[string]int{}
			for q, k := range order {
				rank[k] = q
			}
			for round := 0; round < 4 && len(pending) > 0; round++ {
				var ks []ckey
				for k := range pending {
					ks = append(ks, k)
				}
				sort.Slice(ks, func(a, b int) bool {
					if rank[ks[a].kind] != rank[ks[b].kind] {
						return rank[ks[a].kind] < rank[ks[b].kind]
					}
					if fo%2 == 1 {
						return ks[a].name > ks[b].name
					}
					return ks[a].name < ks[b].name
				})
				for _, k := range ks {
					deliver(k, "final")
				}
			}
			if len(pending) == 0 {
				checkpoint()
			} else {
				l.Outcome("keys still asking for a retry at the horizon")
			}
		}
		got := digestCluster(w, w.Cluster)
		l.Eval()
		l.Trace()
		l.States += int64(checkpoints)
		l.Nontrivial(name + "/" + strings.Join(x.history, ","))
		l.Outcome(strings.Join(got, " | "))
		if run.Used == bound && len(x.history)%11 == 0 {
			l.Sample(map[string]any{"script": name, "history": x.history, "cache": got})
		}
	}
}

func init() {
	registerReplay("C11", func(d map[string]any) []string {
		name, _ := d["script"].(string)
		if _, ok := c11Scripts[name]; !ok {
			fmt.Println("unknown script", name)
			return nil
		}
		r := ev.New("C11", "replay", "model_checking")
		l := r.Local()
		c11MakeExec(name, l, 99)(explore.Replay(intList(d["choices"])))
		sigs := r.ViolationSigs()
		for _, sg := range sigs {
			fmt.Printf("violation %q: %s\n", sg, r.ViolationMsg(sg))
		}
		return sigs
	})
}

func diffLines(a, b []string) []string {
	in := map[string]bool{}
	for _, x := range b {
		in[x] = true
	}
	var out []string
	for _, x := range a {
		if !in[x] {
			out = append(out, x)
		}
	}
	return out
}

// fieldDiff names, for the violation signature, the shape of the differing entries (node= / claim= presence, or pool)
// and the fields (key=value tokens) that differ between corresponding lines.
func fieldDiff(a, b []string) string {
	fields := map[string]bool{}
	shapes := map[string]bool{}
	da, db := diffLines(a, b), diffLines(b, a)
	for i := range da {
		fa := strings.Fields(da[i])
		if len(fa) > 3 && (fa[0] == "node" || fa[0] == "ref") {
			shapes[fa[2]+","+fa[3]] = true
		} else if len(fa) > 0 {
			shapes[fa[0]] = true
		}
		if i >= len(db) {
			fields["extra-entry"] = true
			continue
		}
		fb := strings.Fields(db[i])
		for j := range fa {
			if j < len(fb) && fa[j] != fb[j] {
				fields[strings.SplitN(fa[j], "=", 2)[0]] = true
			}
		}
	}
	if len(da) != len(db) {
		fields["entry-count"] = true
	}
	var out, sh []string
	for f := range fields {
		out = append(out, f)
	}
	for f := range shapes {
		sh = append(sh, f)
	}
	sort.Strings(out)
	sort.Strings(sh)
	return "@" + strings.Join(sh, "/") + ": " + strings.Join(out, ",")
}

var _ = time.Second
