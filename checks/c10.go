package checks

import (
	"fmt"
	"strings"
	"time"

	corev1 "k8s.io/api/core/v1"

	v1 "sigs.k8s.io/karpenter/pkg/apis/v1"
	"sigs.k8s.io/karpenter/pkg/controllers/node/termination/terminator"

	"verif/internal/enum"
	"verif/internal/ev"
	"verif/internal/explore"
	"verif/world"
)

// C10 — drain honours PDBs, do-not-disrupt and ordering until the deadline.

var drainScenarios = []termScenario{
	{name: "plain-tiers", pods: []termPod{{name: "a"}, {name: "d", daemon: true}, {name: "c", critical: true}}, first: "nodeclaim"},
	// the do-not-disrupt duration (61m since a start one hour ago) EXPIRES one minute into the run: the protected pod must
	// still go before the daemon and the critical pod
	{name: "dnd-expiring-lower-tier+daemon+critical", pods: []termPod{{name: "a", dnd: "61m"}, {name: "d", daemon: true}, {name: "c", critical: true}}, first: "nodeclaim"},
	{name: "dnd-true-lower-tier+daemon+critical", pods: []termPod{{name: "a", dnd: "true"}, {name: "d", daemon: true}, {name: "c", critical: true}}, first: "nodeclaim"},
	{name: "dnd-true-no-tgp", pods: []termPod{{name: "a", dnd: "true"}, {name: "b"}}, first: "nodeclaim"},
	{name: "dnd-duration-expired-and-active", pods: []termPod{{name: "a", dnd: "10m"}, {name: "b", dnd: "3h"}}, first: "nodeclaim"},
	{name: "static+tolerating", pods: []termPod{{name: "s", static: true}, {name: "t", tolerates: true}, {name: "a"}}, first: "nodeclaim"},
	{name: "tgp60-grace30-dnd", tgp: dur(60 * time.Second), pods: []termPod{{name: "a", dnd: "true", grace: i64(30)}, {name: "b", grace: i64(5)}}, first: "nodeclaim"},
	{name: "tgp60-pdb-blocked-grace10", tgp: dur(60 * time.Second), pods: []termPod{{name: "a", pdb: "blocked", grace: i64(10)}, {name: "c", critical: true, grace: i64(50)}}, first: "nodeclaim"},
	{name: "tgp600-grace300+nil", tgp: dur(600 * time.Second), pods: []termPod{{name: "a", grace: i64(300), pdb: "blocked"}, {name: "b", pdb: "two"}}, first: "nodeclaim"},
	{name: "tgp60-already-terminating", tgp: dur(60 * time.Second), pods: []termPod{{name: "a", terminating: true, grace: i64(300)}, {name: "b", grace: i64(30)}}, first: "nodeclaim"},
	{name: "pdb-blocked-lower-tier", pods: []termPod{{name: "a", pdb: "blocked"}, {name: "d", daemon: true}}, first: "node"},
	{name: "tgp300-slow-pods-pdb", tgp: dur(300 * time.Second), slowPods: true, pods: []termPod{{name: "a", pdb: "blocked", grace: i64(120)}, {name: "b", grace: i64(30)}}, first: "nodeclaim"},
	// the owner re-creates pod a under the same name (new UID) on another node while the drain is under way: the queue
	// entry of the old pod must never remove the new one (the eviction carries the old pod's UID as a precondition)
	{name: "pod-replaced-under-same-name", pods: []termPod{{name: "a", grace: i64(30)}, {name: "b"}}, replaced: "a", first: "nodeclaim"},
	{name: "pod-replaced-under-same-name-pdb-blocked", pods: []termPod{{name: "a", pdb: "blocked"}, {name: "d", daemon: true}}, replaced: "a", first: "nodeclaim"},
	{name: "tgp60-tiers-grace", tgp: dur(60 * time.Second), pods: []termPod{{name: "a", grace: i64(20)}, {name: "d", daemon: true, grace: i64(40)}, {name: "c", critical: true, daemon: true, grace: i64(70)}}, first: "nodeclaim"},
}

func dndActive(p *corev1.Pod, now time.Time) bool {
	v, ok := p.Annotations[v1.DoNotDisruptAnnotationKey]
	if !ok {
		return false
	}
	if v == "true" {
		return true
	}
	d, err := time.ParseDuration(v)
	if err != nil {
		return false
	}
	if p.Status.StartTime == nil {
		return true
	}
	return now.Sub(p.Status.StartTime.Time) < d
}

func (t *termRun) currentDeadline() *time.Time {
	nc := t.w.GetNodeClaim(t.nc.Name)
	if nc != nil {
		if ts, ok := nc.Annotations[v1.NodeClaimTerminationTimestampAnnotationKey]; ok {
			if dl, err := time.Parse(time.RFC3339, ts); err == nil {
				t.deadline = &dl
			}
		}
	}
	return t.deadline
}

// c10After judges every pod removal at the instant it is requested.
func c10After(c *world.Call, t *termRun) {
	if c.Kind != "Pod" || !(c.Verb == "evict" || c.Verb == "delete") {
		return
	}
	w := t.w
	ps, known := t.spec[c.Name]
	if !known {
		return
	}
	pod, _ := c.Object.(*corev1.Pod)
	if pod == nil {
		return
	}
	now := w.Clock.Now()
	deadline := t.currentDeadline()
	switch c.Verb {
	case "evict":
		var why []string
		if ps.static {
			why = append(why, "static pod")
		}
		if ps.tolerates {
			why = append(why, "pod tolerates the disruption taint")
		}
		if dndActive(pod, now) {
			why = append(why, "do-not-disrupt is active")
		}
		if len(why) > 0 {
			t.viol = append(t.viol, c01Violation{"evicted a protected pod: " + strings.Join(why, "+"), fmt.Sprintf("eviction of pod %s requested although: %s", c.Name, strings.Join(why, "; "))})
		}
		// ordering: a daemon / critical pod is only evicted when no evictable non-critical non-daemon pod is still un-evicted
		if ps.tier() > 0 {
			for name, qs := range t.spec {
				if qs.tier() != 0 || qs.static || qs.tolerates || qs.succeeded {
					continue
				}
				q := t.livePod(name)
				if q == nil || q.DeletionTimestamp != nil || q.Status.Phase == corev1.PodSucceeded || q.Status.Phase == corev1.PodFailed || dndActive(q, now) {
					continue
				}
				t.viol = append(t.viol, c01Violation{"daemon/critical pod evicted before a non-critical non-daemon pod", fmt.Sprintf("eviction of %s (tier %d) requested while evictable non-critical non-daemon pod %s has not been evicted", c.Name, ps.tier(), name)})
			}
		}
		// ... and, read literally: no non-critical non-daemon pod is evicted AFTER a daemon / critical pod was (e.g. one whose
		// do-not-disrupt duration expired in the meantime)
		// (an eviction request that the API answers with NotFound / Conflict — a stale queue entry for a pod that is already
		// gone — evicts nothing and is not an eviction in the sense of the statement)
		if ps.tier() == 0 && c.Err == "" {
			for name, qs := range t.spec {
				if qs.tier() > 0 && t.evicted[name] {
					t.viol = append(t.viol, c01Violation{"non-critical non-daemon pod evicted after a daemon/critical pod", fmt.Sprintf("eviction of %s (non-critical, non-daemon) requested after %s (tier %d) had already been evicted", c.Name, name, qs.tier())})
				}
			}
		}
		if c.Err == "" {
			t.evicted[c.Name] = true
			// an eviction is resolved by NAME at the API server: the pod that was removed has to be the pod the drain
			// enqueued, not a pod re-created under the same name elsewhere (that one has an active do-not-disrupt and
			// does not even run on the draining node)
			if i := strings.Index(c.Note, "evicted-uid="); i >= 0 {
				if uid := c.Note[i+len("evicted-uid="):]; uid != string(t.pods[c.Name].UID) {
					t.viol = append(t.viol, c01Violation{"evicted a protected pod: a same-name replacement on another node (do-not-disrupt active)", fmt.Sprintf("the eviction requested for pod %s (uid %s, enqueued by the drain) removed the pod that replaced it under the same name (uid %s), which runs on another node and has an active do-not-disrupt annotation", c.Name, t.pods[c.Name].UID, uid)})
				}
			}
		}
	case "delete":
		var why []string
		grace := int64(-1)
		if i := strings.Index(c.Note, "grace="); i >= 0 {
			fmt.Sscan(c.Note[i+6:], &grace)
		}
		if deadline == nil {
			why = append(why, "the NodeClaim has no termination grace period / deadline")
		} else {
			eligible := false
			if pod.DeletionTimestamp != nil {
				eligible = pod.DeletionTimestamp.After(*deadline)
			} else if pod.Spec.TerminationGracePeriodSeconds != nil {
				eligible = now.After(deadline.Add(-time.Duration(*pod.Spec.TerminationGracePeriodSeconds) * time.Second))
			}
			if !eligible {
				why = append(why, fmt.Sprintf("it is earlier than the deadline %s minus the pod's grace period (now %s)", deadline.Format("15:04:05"), now.Format("15:04:05")))
			}
		}
		if grace < 1 {
			why = append(why, fmt.Sprintf("grace period %d < 1s", grace))
		}
		if ps.static {
			why = append(why, "static pod")
		}
		if len(why) > 0 {
			t.viol = append(t.viol, c01Violation{"direct pod delete not permitted: " + deleteClass(why), fmt.Sprintf("pod %s deleted directly (%s) although %s", c.Name, c.Note, strings.Join(why, "; "))})
		}
	}
}

func deleteClass(why []string) string {
	var c []string
	for _, w := range why {
		switch {
		case strings.Contains(w, "no termination grace"):
			c = append(c, "no-deadline")
		case strings.Contains(w, "earlier"):
			c = append(c, "too-early")
		case strings.Contains(w, "grace period"):
			c = append(c, "zero-grace")
		case strings.Contains(w, "static"):
			c = append(c, "static")
		}
	}
	return strings.Join(c, "+")
}

// c10QueueSeam: a pod queued under one deadline is never later handled under a later one. All sequences of <=4 ops over
// {Add(early), Add(late), Add(nil), Reconcile, clock -> between the two force-delete thresholds} on the real queue.
func c10QueueSeam(r *ev.Rec) {
	ops := []string{"add-early", "add-late", "add-none", "reconcile", "clock-past-early-threshold"}
	depth := 4
	if r.Tier == "thorough" {
		depth = 5
	}
	dims := make([]int, depth)
	for i := range dims {
		dims[i] = len(ops)
	}
	enum.Run(r, enum.Size(dims...), func(idx int64, l *ev.Local) {
		d := enum.Odo(idx, dims...)
		w := world.New(world.Options{})
		w.Client.GracefulPods = true
		p := world.Pod("a", 100, world.Bound("n1"))
		p.Spec.TerminationGracePeriodSeconds = i64(30)
		p.Annotations = map[string]string{v1.DoNotDisruptAnnotationKey: "true"} // never evictable gracefully: stays enqueued
		w.Add(p)
		q := terminator.NewQueue(w.Clock, w.Client, w.Rec)
		early, late := world.Epoch.Add(60*time.Second), world.Epoch.Add(600*time.Second)
		var earliest *time.Time
		enq := false
		var hist []string
		for _, o := range d {
			hist = append(hist, ops[o])
			switch ops[o] {
			case "add-early":
				q.Add(&early, p)
				if !enq || earliest == nil || early.Before(*earliest) {
					earliest = &early
				}
				enq = true
			case "add-late":
				q.Add(&late, p)
				if !enq {
					earliest = &late
				} else if earliest == nil {
					earliest = &late
				}
				enq = true
			case "add-none":
				q.Add(nil, p)
				if !enq {
					earliest = nil
				}
				enq = true
			case "clock-past-early-threshold":
				w.Clock.SetTime(early.Add(-29 * time.Second)) // after early-30s, long before late-30s
			case "reconcile":
				cur := &corev1.Pod{}
				if err := w.Raw.Get(w.Ctx, clientKey("default", "a"), cur); err != nil || cur.DeletionTimestamp != nil {
					continue
				}
				before := len(w.Client.Log)
				_, _ = q.Reconcile(w.Ctx, cur)
				deleted := false
				for _, c := range w.Client.Log[before:] {
					if c.Verb == "delete" && c.Kind == "Pod" {
						deleted = true
					}
				}
				l.Eval()
				shouldForce := enq && earliest != nil && w.Clock.Now().After(earliest.Add(-30*time.Second))
				if enq && earliest != nil && earliest.Equal(early) && shouldForce && !deleted {
					l.Violation("queue: pod queued under the early deadline handled under a later one", fmt.Sprintf("after %v the pod is past the early deadline's threshold but was not force-deleted", hist), map[string]any{"ops": hist})
				}
				if deleted && !shouldForce {
					l.Violation("queue: force-delete before the earliest queued deadline allows it", fmt.Sprintf("after %v the pod was deleted although no queued deadline permits it yet", hist), map[string]any{"ops": hist})
				}
				if !q.Has(p) {
					enq, earliest = false, nil
				}
			}
		}
		l.NontrivialH(ev.H("seam/" + strings.Join(hist, ",")))
		if idx == 321 {
			l.Sample(map[string]any{"queue_seam_ops": hist})
		}
	})
}

func init() {
	register("C10", "model_checking", func(r *ev.Rec) {
		bound, steps := 1, 30
		type passT struct {
			bound      int
			interleave bool
		}
		passes := []passT{{1, true}}
		if r.Tier == "thorough" {
			bound = 2
			passes = []passT{{1, true}, {2, false}}
		}
		r.Rule = fmt.Sprintf("%d drain scenarios (priority/owner tiers, do-not-disrupt true / expired duration / active duration, static, tolerating, grace nil/5..300s, already terminating, PDB blocked / two PDBs, TGP none/60s/300s/600s, pods using their whole grace period) are driven for %d steps through the real node-termination controller, lifecycle controller and eviction queue (graceful pod deletion and PDB admission emulated by the API layer); every history with <=%d deviations from the fair default cycle is explored (an environment event happening in the MIDDLE of a reconcile, before any one of its calls — thorough: as a separate one-deviation pass —, or any other enabled reconcile or event inserted: clock +1s/+61s/past-TGP and jumps to every threshold instant — deadline, deadline minus each pod grace period, +-1s, the last half second, mid-window —, PDBs allow, pod finished, node NotReady, restart...). "+
			"Every eviction create and pod Delete is judged at the instant it is requested. Plus a seam exploration of all operation sequences of length <=4/5 on the real eviction Queue (Add under early/late/no deadline, Reconcile, clock between the thresholds). states = distinct (scenario, history) reached; non-trivial likewise", len(drainScenarios), steps, bound)
		r.Assumptions = []string{"controllers do not preempt each other inside a reconcile; the ENVIRONMENT may act before any API / provider call of a reconcile", "ordering clause judged as the statement words it: non-critical non-daemon pods before daemon and critical pods"}
		c10QueueSeam(r)
		// passes outermost, cheapest first: every scenario is covered at the lower bound before the deeper pass starts, so a
		// deadline cuts the deepest pass only (the evidence says which pass completed)
		for pi, pass := range passes {
			pass := pass
			completed := true
			enum.RunEveryShard(r, int64(len(drainScenarios)), func(i int64, l *ev.Local) {
				sc := drainScenarios[i]
				bound, interleave := pass.bound, pass.interleave
				ex := &explore.Explorer{Bound: bound, MaxExecs: 400000, Stop: r.Expired, Shard: r.Shard, NShards: r.Shards}
				ex.Exec = func(run *explore.Run) {
					l.Mute = run.Replica
					t := buildTerm(sc)
					t.interleave = interleave
					t.run(run, steps, nil, c10After)
					l.Eval()
					l.Trace()
					if !l.Mute {
						l.States++
					}
					l.Nontrivial(sc.name + "/" + hist(t))
					var rem []string
					for _, c := range t.w.Client.Log {
						if c.Kind == "Pod" && (c.Verb == "evict" || c.Verb == "delete") {
							rem = append(rem, c.Verb+":"+c.Name)
						}
					}
					l.Outcome(sc.name + ": " + strings.Join(rem, " "))
					for _, v := range t.viol {
						l.Violation(v.Sig, fmt.Sprintf("%s  [scenario=%s history=%v]", v.Msg, sc.name, t.history), map[string]any{"scenario": sc.name, "choices": run.Choices(), "faults": run.Plan(), "history": t.history, "calls": callStrings(t.w)})
					}
					if run.Used == bound && len(t.history)%9 == 0 {
						l.Sample(map[string]any{"scenario": sc.name, "history": t.history, "removals": rem})
					}
				}
				ex.Explore()
				noteDiverged(l, ex, "prefix")
				l.Transitions += int64(ex.Points)
				if ex.Capped {
					l.Outcome("exploration-capped")
					r.Exhaustive = false
				}
			})
			if r.Expired() {
				completed = false
			}
			if completed {
				// per shard process; summed by the parent: the pass is complete iff every shard completed it
				k := fmt.Sprintf("shards_that_completed_pass_%d_of_%d_(<=%d_deviations,_events_inside_a_reconcile_%v)_sum", pi+1, len(passes), pass.bound, pass.interleave)
				if v, ok := r.Extra[k].(float64); ok {
					r.Extra[k] = v + 1
				} else {
					r.Extra[k] = 1.0
				}
			}
		}
	})
}

func termReplayer(scenarios []termScenario, faults func(c *world.Call) bool, after func(c *world.Call, t *termRun), final func(t *termRun)) Replayer {
	return func(d map[string]any) []string {
		name, _ := d["scenario"].(string)
		for _, sc := range scenarios {
			if sc.name != name {
				continue
			}
			t := buildTerm(sc)
			t.run(explore.ReplayPlan(intList(d["choices"]), intMap(d["faults"])), 30, faults, after)
			if final != nil {
				final(t)
			}
			fmt.Printf("scenario %s\nhistory %v\n", sc.name, t.history)
			for _, c := range callStrings(t.w) {
				fmt.Println("  call:", c)
			}
			var sigs []string
			for _, v := range t.viol {
				fmt.Printf("violation %q: %s\n", v.Sig, v.Msg)
				sigs = append(sigs, v.Sig)
			}
			return sigs
		}
		fmt.Println("unknown scenario", name)
		return nil
	}
}

func init() {
	registerReplay("C10", termReplayer(drainScenarios, nil, c10After, nil))
	registerReplay("C09", termReplayer(termScenarios, func(c *world.Call) bool { return true }, c09After, func(t *termRun) {
		w := t.w
		if w.GetNodeClaim(t.nc.Name) == nil && t.nc.Status.ProviderID != "" && w.CP.Instance(t.nc.Status.ProviderID) != nil {
			t.viol = append(t.viol, c01Violation{"instance leaked", "NodeClaim is gone but the provider still has its instance"})
		}
	}))
}
