package checks

import (
	"context"
	"fmt"
	storagev1 "k8s.io/api/storage/v1"
	metav1 "k8s.io/apimachinery/pkg/apis/meta/v1"
	"os"
	"sigs.k8s.io/controller-runtime/pkg/client"
	"sigs.k8s.io/karpenter/pkg/scheduling"
	"sort"
	"strings"
	"time"

	corev1 "k8s.io/api/core/v1"

	v1 "sigs.k8s.io/karpenter/pkg/apis/v1"
	"sigs.k8s.io/karpenter/pkg/controllers/disruption"
	"sigs.k8s.io/karpenter/pkg/controllers/state"

	"verif/internal/enum"
	"verif/internal/ev"
	"verif/world"
)

// C18 — scheduling simulations have no side effects.

func c18Worlds() map[string]dWorld {
	hp := func(p *corev1.Pod) { hostPort(8080, "")(p) }
	K3 := catalogs["K3"]
	K1r := []world.ITSpec{K1[2], K1[0], K1[1]} // deliberately not in price order: an in-place sort of the provider's slice is observable
	return map[string]dWorld{
		"three-nodes-mixed": {catalog: K1r, pools: []*v1.NodePool{world.NodePool("default")}, nodes: []dNode{
			{name: "a", pool: "default", typ: "l", zone: "a", ct: "on-demand", pods: []dPod{{name: "p1", cpu: 500}, {name: "p2", cpu: 700, mods: []func(*corev1.Pod){hp}}}},
			{name: "b", pool: "default", typ: "m", zone: "b", ct: "spot", pods: []dPod{{name: "p3", cpu: 300, cost: "100"}}},
			{name: "c", pool: "default", typ: "s", zone: "a", ct: "spot"}},
			pending: []dPod{{name: "q1", cpu: 1500}, {name: "q2", cpu: 6000}}},
		"deleting-and-uninitialized": {catalog: catalogs["K2"], pools: []*v1.NodePool{world.NodePool("default")}, nodes: []dNode{
			{name: "a", pool: "default", typ: "l", zone: "b", ct: "on-demand", pods: []dPod{{name: "p1", cpu: 2500}}},
			{name: "b", pool: "default", typ: "m", zone: "b", ct: "on-demand", deleting: true, pods: []dPod{{name: "p2", cpu: 900}}},
			{name: "c", pool: "default", typ: "m", zone: "a", ct: "spot", stage: "registered"}},
			pending: []dPod{{name: "q1", cpu: 500, sel: map[string]string{corev1.LabelTopologyZone: "a"}}}},
		"reserved-offerings": {catalog: K3, reserved: true, pools: []*v1.NodePool{world.NodePool("default")}, nodes: []dNode{
			{name: "a", pool: "default", typ: "l", zone: "a", ct: "on-demand", pods: []dPod{{name: "p1", cpu: 2500}}},
			{name: "b", pool: "default", typ: "m", zone: "a", ct: "on-demand", pods: []dPod{{name: "p2", cpu: 900}}}},
			pending: []dPod{{name: "q1", cpu: 3000}}},
		// volumes: node a's pod mounts a claim and can move to node b, which has a CSI attach limit of 2 and already mounts one
		// claim; node b also runs a pod WITHOUT volumes ("x-...": deleted after the simulations, see the post-mutation check)
		"pvc-pods-and-volume-limit": {catalog: K1r, pools: []*v1.NodePool{world.NodePool("default")}, nodes: []dNode{
			{name: "a", pool: "default", typ: "m", zone: "a", ct: "on-demand", pods: []dPod{{name: "pa", cpu: 500, mods: []func(*corev1.Pod){pvcVol("claim-a")}}}},
			{name: "b", pool: "default", typ: "l", zone: "a", ct: "spot", pods: []dPod{{name: "pb1", cpu: 500, mods: []func(*corev1.Pod){pvcVol("claim-b1")}}, {name: "x-pb2", cpu: 300}}}},
			extra: func() []client.Object {
				sc, two := "sc", int32(2)
				return []client.Object{
					&storagev1.StorageClass{ObjectMeta: metav1.ObjectMeta{Name: sc}, Provisioner: "csi.x"},
					&corev1.PersistentVolumeClaim{ObjectMeta: metav1.ObjectMeta{Name: "claim-a", Namespace: "default"}, Spec: corev1.PersistentVolumeClaimSpec{StorageClassName: &sc}},
					&corev1.PersistentVolumeClaim{ObjectMeta: metav1.ObjectMeta{Name: "claim-b1", Namespace: "default"}, Spec: corev1.PersistentVolumeClaimSpec{StorageClassName: &sc}},
					&storagev1.CSINode{ObjectMeta: metav1.ObjectMeta{Name: "b"}, Spec: storagev1.CSINodeSpec{Drivers: []storagev1.CSINodeDriver{{Name: "csi.x", NodeID: "b", Allocatable: &storagev1.VolumeNodeResources{Count: &two}}}}},
				}
			}()},
		// inter-pod constraints: topology groups are built from the cluster's pods for every simulation
		"inter-pod-constraints": {catalog: K1r, pools: []*v1.NodePool{world.NodePool("default")}, nodes: []dNode{
			{name: "a", pool: "default", typ: "m", zone: "a", ct: "on-demand", pods: []dPod{{name: "p1", cpu: 500, mods: []func(*corev1.Pod){lbl("app", "x"), antiAff(corev1.LabelHostname, "x", false)}}}},
			{name: "b", pool: "default", typ: "m", zone: "b", ct: "on-demand", pods: []dPod{{name: "p2", cpu: 500, mods: []func(*corev1.Pod){lbl("app", "x"), antiAff(corev1.LabelHostname, "x", false)}}, {name: "p3", cpu: 300, mods: []func(*corev1.Pod){lbl("app", "y"), spread(corev1.LabelTopologyZone, 1, corev1.DoNotSchedule, "y")}}}},
			{name: "c", pool: "default", typ: "l", zone: "a", ct: "spot", pods: []dPod{{name: "p4", cpu: 300, mods: []func(*corev1.Pod){lbl("app", "y"), spread(corev1.LabelTopologyZone, 1, corev1.DoNotSchedule, "y")}}}}},
			pending: []dPod{{name: "q1", cpu: 400, mods: []func(*corev1.Pod){lbl("app", "x"), antiAff(corev1.LabelHostname, "x", false)}}}},
		// daemon pods and host ports on every node; a drifted and a marked node among the candidates
		"daemons-hostports-drift": {catalog: catalogs["K2"], pools: []*v1.NodePool{world.NodePool("default")}, nodes: []dNode{
			{name: "a", pool: "default", typ: "l", zone: "b", ct: "on-demand", drifted: true, pods: []dPod{{name: "d1", cpu: 100, daemon: true, mods: []func(*corev1.Pod){hostPort(9100, "")}}, {name: "p1", cpu: 600, mods: []func(*corev1.Pod){hp}}}},
			{name: "b", pool: "default", typ: "m", zone: "b", ct: "on-demand", pods: []dPod{{name: "d2", cpu: 100, daemon: true, mods: []func(*corev1.Pod){hostPort(9100, "")}}, {name: "p2", cpu: 600, mods: []func(*corev1.Pod){hp}}}},
			{name: "c", pool: "default", typ: "m", zone: "a", ct: "spot", marked: true, pods: []dPod{{name: "p3", cpu: 300}}}},
			pending: []dPod{{name: "q1", cpu: 500, mods: []func(*corev1.Pod){hp}}}},
		"two-pools-pdb-and-dnd": {catalog: catalogs["K4"], pools: []*v1.NodePool{world.NodePool("default"), world.NodePool("spare", weight(5), reqsMod(reqZoneA()))}, nodes: []dNode{
			{name: "a", pool: "default", typ: "l", zone: "a", ct: "spot", pods: []dPod{{name: "p1", cpu: 500, pdb: "blocked"}, {name: "p2", cpu: 400}}},
			{name: "b", pool: "spare", typ: "m", zone: "a", ct: "on-demand", pods: []dPod{{name: "p3", cpu: 500, dnd: "true"}}},
			{name: "c", pool: "default", typ: "s", zone: "b", ct: "on-demand", pods: []dPod{{name: "p4", cpu: 300, sel: map[string]string{world.FamKey: "x"}}}}}},
	}
}

func reqZoneA() v1.NodeSelectorRequirementWithMinValues {
	return v1.NodeSelectorRequirementWithMinValues{Key: corev1.LabelTopologyZone, Operator: corev1.NodeSelectorOpIn, Values: []string{"a"}}
}

// digestClusterFull: everything observable of the cluster cache (C11 digest + nominations + pod bookkeeping).
func digestClusterFull(w *world.World, c *state.Cluster, withBookkeeping bool) string {
	parts := digestCluster(w, c)
	for n := range c.Nodes() {
		parts = append(parts, fmt.Sprintf("nominated %s=%v", n.ProviderID(), n.Nominated(w.Clock)))
	}
	// ... and the state as it is HANDED OUT to schedulers (DeepCopyNodes): what a later simulation will start from
	probe := world.Pod("probe", 1, hostPort(8080, ""))
	probePorts := scheduling.GetHostPorts(probe)
	probe2 := world.Pod("probe2", 1, hostPort(9100, ""))
	probePorts2 := scheduling.GetHostPorts(probe2)
	for _, n := range c.DeepCopyNodes() {
		port, port2, vol := "free", "free", "ok"
		if err := n.HostPortUsage().Conflicts(probe, probePorts); err != nil {
			port = "in-use"
		}
		if err := n.HostPortUsage().Conflicts(probe2, probePorts2); err != nil {
			port2 = "in-use"
		}
		if err := n.VolumeUsage().ExceedsLimits(scheduling.Volumes{"csi.x": {"default/other-claim": {}}}); err != nil {
			vol = "csi.x-full"
		}
		pr := n.PodRequests()
		parts = append(parts, fmt.Sprintf("handed-out copy %s port8080=%s port9100=%s vol=%s podcpu=%d marked=%v", n.ProviderID(), port, port2, vol, pr.Cpu().MilliValue(), n.MarkedForDeletion()))
	}
	if withBookkeeping {
		pods := &corev1.PodList{}
		_ = w.Raw.List(w.Ctx, pods)
		for i := range pods.Items {
			k := clientKey(pods.Items[i].Namespace, pods.Items[i].Name)
			parts = append(parts, fmt.Sprintf("pod %s decision=%v success=%v claim=%q", k.Name, !c.PodSchedulingDecisionTime(k).IsZero(), !c.PodSchedulingSuccessTime(k).IsZero(), c.PodNodeClaimMapping(k)))
		}
	}
	parts = append(parts, fmt.Sprintf("consolidation-state=%v", c.ConsolidationState().Unix()))
	sort.Strings(parts)
	return strings.Join(parts, "\n")
}

func firstDiff(a, b string) string {
	la, lb := strings.Split(a, "\n"), strings.Split(b, "\n")
	for i := 0; i < len(la) || i < len(lb); i++ {
		var x, y string
		if i < len(la) {
			x = la[i]
		}
		if i < len(lb) {
			y = lb[i]
		}
		if x != y {
			if len(x) > 300 {
				x = x[:300]
			}
			if len(y) > 300 {
				y = y[:300]
			}
			return fmt.Sprintf("before: %s | after: %s", x, y)
		}
	}
	return ""
}

func init() {
	register("C18", "exploration", func(r *ev.Rec) {
		worlds := c18Worlds()
		var names []string
		for n := range worlds {
			names = append(names, n)
		}
		sort.Strings(names)
		ks := []int{1, 2, 3}
		if r.Tier == "thorough" {
			ks = []int{1, 2, 3, 4}
		}
		ctxModes := []string{"normal", "already-cancelled", "deadline-1ns"}
		subsets := [][]int{{0}, {1}, {2}, {0, 1}, {0, 2}, {1, 2}, {0, 1, 2}}
		r.Rule = fmt.Sprintf("%d disruption worlds (mixed nodes with host-port / deletion-cost pods and pending pods; deleting + uninitialized nodes; reserved offerings with the gate on; two pools with PDB / do-not-disrupt pods; pods with required anti-affinity and DoNotSchedule spread; daemon pods, host ports on every node, a drifted and a marked node) x every candidate subset of size <=3 of the candidates returned by the real GetCandidates x k in %v consecutive disruption.SimulateScheduling calls x context {normal, already cancelled, 1ns deadline}; plus one Provisioner.Schedule pass per world. "+
			"Oracle: digest of all API objects (incl. resourceVersions), of the cluster cache through exported accessors — both the live entries and the copies DeepCopyNodes hands to schedulers — (usage, host-port / volume probes, deletion marks, nominations, consolidation state) and of the provider catalog INCLUDING slice order, availability and reservation counts identical before and after; zero write calls; repeated identical simulations decide the same; after the simulations an unrelated pod is deleted (one ordinary pod event) and the cache must equal a fresh one built from the API (residue in fields no accessor shows surfaces on the next update). For the provisioning pass only nominations and pod bookkeeping may differ. non-trivial = distinct (world, subset, k, context) whose simulation returned placements", len(names), ks)
		r.Assumptions = []string{"state is observed through exported accessors only", "real-time timeouts inside the scheduler are not reached"}
		enum.Run(r, enum.Size(len(names), len(subsets), len(ks), len(ctxModes)), func(idx int64, l *ev.Local) {
			d := enum.Odo(idx, len(names), len(subsets), len(ks), len(ctxModes))
			env := buildDisrupt(worlds[names[d[0]]])
			w := env.W
			all, err := disruption.GetCandidates(w.Ctx, w.Cluster, w.Client, w.Rec, w.Clock, w.CP, func(context.Context, *disruption.Candidate) bool { return true }, disruption.GracefulDisruptionClass, env.Queue)
			if err != nil {
				l.Outcome("get-candidates-error")
				return
			}
			sort.Slice(all, func(i, j int) bool { return all[i].Name() < all[j].Name() })
			var cands []*disruption.Candidate
			for _, i := range subsets[d[1]] {
				if i < len(all) {
					cands = append(cands, all[i])
				}
			}
			if len(cands) != len(subsets[d[1]]) {
				l.Outcome("subset-not-available")
				return
			}
			w.Client.Log = nil
			api0, cl0, cat0 := w.DigestAPI(), digestClusterFull(w, w.Cluster, true), w.DigestCatalog()
			placements := 0
			firstDecision := ""
			for k := 0; k < ks[d[2]]; k++ {
				ctx := w.Ctx
				var cancel context.CancelFunc
				switch ctxModes[d[3]] {
				case "already-cancelled":
					ctx, cancel = context.WithCancel(ctx)
					cancel()
				case "deadline-1ns":
					ctx, cancel = context.WithTimeout(ctx, time.Nanosecond)
				}
				res, _ := disruption.SimulateScheduling(ctx, w.Client, w.Cluster, w.Prov, w.Clock, w.Rec, nil, cands...)
				if cancel != nil {
					cancel()
				}
				// the same simulation repeated must decide the same: an earlier one left nothing behind
				if ctxModes[d[3]] == "normal" {
					dg := digestOutcome(schedOutcome{Results: res})
					if k == 0 {
						firstDecision = dg
					} else if dg != firstDecision {
						l.Violation("consecutive identical simulations disagree", fmt.Sprintf("simulation #1 decided %q, simulation #%d decided %q  [world=%s candidates=%v]", firstDecision, k+1, dg, names[d[0]], candNames(cands)), map[string]any{"world": names[d[0]]})
					}
				}
				if os.Getenv("C18_DEBUG") != "" && names[d[0]] == "pvc-pods-and-volume-limit" {
					fmt.Printf("C18DBG cands=%v k=%d ctx=%s => %s\n", candNames(cands), k, ctxModes[d[3]], digestOutcome(schedOutcome{Results: res}))
				}
				for _, nc := range res.NewNodeClaims {
					placements += len(nc.Pods)
				}
				for _, en := range res.ExistingNodes {
					placements += len(en.Pods)
				}
			}
			l.Eval()
			desc := fmt.Sprintf("world=%s candidates=%v simulations=%d context=%s", names[d[0]], candNames(cands), ks[d[2]], ctxModes[d[3]])
			if placements > 0 {
				l.NontrivialH(ev.H(desc))
			}
			l.Outcome(fmt.Sprintf("placements=%v", placements > 0))
			if wr := w.WriteCalls(); len(wr) > 0 {
				l.Violation("simulation wrote to the API / provider", fmt.Sprintf("%v  [%s]", wr, desc), map[string]any{"case": desc})
			}
			if a := w.DigestAPI(); a != api0 {
				l.Violation("simulation changed API objects", firstDiff(api0, a)+"  ["+desc+"]", map[string]any{"case": desc})
			}
			if c := digestClusterFull(w, w.Cluster, true); c != cl0 {
				l.Violation("simulation changed the cluster state: "+diffKind(cl0, c), firstDiff(cl0, c)+"  ["+desc+"]", map[string]any{"case": desc})
			}
			if c := w.DigestCatalog(); c != cat0 {
				l.Violation("simulation changed the provider's instance types / offerings", firstDiff(cat0, c)+"  ["+desc+"]", map[string]any{"case": desc})
			}
			// post-mutation differential: state a simulation left behind in fields no accessor shows may surface only when
			// the cache is next updated. Delete the pods named x-* (one ordinary pod event each) and compare the cache with a
			// fresh one built from the API.
			pods := &corev1.PodList{}
			_ = w.Raw.List(w.Ctx, pods)
			mutated := false
			inf := w.NewInformers(w.Cluster)
			for i := range pods.Items {
				if strings.HasPrefix(pods.Items[i].Name, "x-") {
					w.EnvDelete(&pods.Items[i])
					// ONLY the pod event is delivered (a Node event would rebuild the entry from scratch and hide residue)
					_ = inf.Deliver("Pod", pods.Items[i].Namespace, pods.Items[i].Name)
					mutated = true
				}
			}
			if mutated {
				have := strings.Join(digestCluster(w, w.Cluster), "\n")
				old := w.Cluster
				w.Cluster = state.NewCluster(w.Clock, w.Client, w.CP)
				w.RebindInformers()
				w.SyncCluster()
				want := strings.Join(digestCluster(w, w.Cluster), "\n")
				w.Cluster = old
				w.RebindInformers()
				if have != want {
					l.Violation("simulation left residue in the cluster state (visible after the next pod event)", firstDiff(want, have)+"  ["+desc+"]", map[string]any{"case": desc})
				}
			}
			if idx%37 == 5 {
				l.Sample(map[string]any{"case": desc, "placements": placements})
			}
		})
		// provisioning pass: only nominations and pod bookkeeping may change
		enum.Run(r, int64(len(names)), func(idx int64, l *ev.Local) {
			env := buildDisrupt(worlds[names[idx]])
			w := env.W
			w.Client.Log = nil
			api0, cl0, cat0 := w.DigestAPI(), digestClusterFull(w, w.Cluster, false), w.DigestCatalog()
			res, err := w.Prov.Schedule(w.Ctx)
			l.Eval()
			desc := fmt.Sprintf("world=%s Provisioner.Schedule (new=%d err=%v)", names[idx], len(res.NewNodeClaims), err)
			l.NontrivialH(ev.H(desc))
			if wr := w.WriteCalls(); len(wr) > 0 {
				l.Violation("provisioning pass wrote before creating NodeClaims", fmt.Sprintf("%v  [%s]", wr, desc), nil)
			}
			if a := w.DigestAPI(); a != api0 {
				l.Violation("provisioning pass changed API objects", firstDiff(api0, a)+"  ["+desc+"]", nil)
			}
			stripNom := func(s string) string {
				var keep []string
				for _, ln := range strings.Split(s, "\n") {
					if !strings.HasPrefix(ln, "nominated ") {
						keep = append(keep, ln)
					}
				}
				return strings.Join(keep, "\n")
			}
			if c := digestClusterFull(w, w.Cluster, false); stripNom(c) != stripNom(cl0) {
				l.Violation("provisioning pass changed cluster state beyond nominations: "+diffKind(stripNom(cl0), stripNom(c)), firstDiff(stripNom(cl0), stripNom(c))+"  ["+desc+"]", nil)
			}
			if c := w.DigestCatalog(); c != cat0 {
				l.Violation("provisioning pass changed the provider's instance types / offerings", firstDiff(cat0, c)+"  ["+desc+"]", nil)
			}
		})
	})
}

func candNames(cs []*disruption.Candidate) []string {
	var out []string
	for _, c := range cs {
		out = append(out, c.Name())
	}
	return out
}

func diffKind(a, b string) string {
	d := firstDiff(a, b)
	for _, k := range []string{"nominated", "pool ", "node ", "pod ", "consolidation-state", "antiaffinity"} {
		if strings.Contains(d, "before: "+k) || strings.Contains(d, "after: "+k) {
			return strings.TrimSpace(k)
		}
	}
	return "other"
}
