package checks

import (
	"fmt"
	"strings"
	"time"

	corev1 "k8s.io/api/core/v1"
	storagev1 "k8s.io/api/storage/v1"

	v1 "sigs.k8s.io/karpenter/pkg/apis/v1"

	"verif/internal/enum"
	"verif/internal/ev"
	"verif/internal/explore"
	"verif/world"
)

var termScenarios = []termScenario{
	{name: "two-pods", pods: []termPod{{name: "a"}, {name: "b", daemon: true}}, first: "nodeclaim"},
	{name: "node-deleted-first", pods: []termPod{{name: "a"}}, first: "node"},
	{name: "tgp60-dnd-and-pdb", tgp: dur(60 * time.Second), pods: []termPod{{name: "a", dnd: "true", grace: i64(30)}, {name: "b", pdb: "blocked", grace: i64(10)}}, first: "nodeclaim"},
	{name: "volume-attachment", pods: []termPod{{name: "a", pvc: "c1"}}, attachment: "drainable", first: "nodeclaim"},
	{name: "tgp60-volume-attachment", tgp: dur(60 * time.Second), pods: []termPod{{name: "a", pvc: "c1", grace: i64(30)}}, attachment: "drainable", first: "nodeclaim"},
	{name: "undrainable-volume+static", pods: []termPod{{name: "a", tolerates: true, pvc: "c2"}, {name: "s", static: true}, {name: "b"}}, attachment: "undrainable", first: "nodeclaim"},
	{name: "stuck-terminating", pods: []termPod{{name: "a", terminating: true, grace: i64(30)}, {name: "b", critical: true}}, first: "nodeclaim"},
	{name: "unregistered", unregistered: true, pods: nil, first: "nodeclaim"},
	{name: "pdb-blocked-no-tgp", pods: []termPod{{name: "a", pdb: "blocked"}, {name: "b", pdb: "two"}}, first: "node"},
	{name: "slow-detach", pods: []termPod{{name: "a", pvc: "c1"}}, attachment: "drainable", slowDetach: true, first: "nodeclaim"},
	{name: "tgp60-slow-detach", tgp: dur(60 * time.Second), pods: []termPod{{name: "a", pvc: "c1", grace: i64(10)}}, attachment: "drainable", slowDetach: true, first: "nodeclaim"},
	{name: "node-not-ready", notReady: true, pods: []termPod{{name: "a"}}, first: "nodeclaim"},
	{name: "tgp300-slow-pods-pdb", tgp: dur(300 * time.Second), slowPods: true, pods: []termPod{{name: "a", pdb: "blocked", grace: i64(120)}}, first: "nodeclaim"},
	{name: "tgp300-slow-pods-dnd+volume", tgp: dur(300 * time.Second), slowPods: true, pods: []termPod{{name: "a", dnd: "true", grace: i64(120), pvc: "c1"}, {name: "b", grace: i64(30)}}, attachment: "drainable", first: "nodeclaim"},
	{name: "tiers", pods: []termPod{{name: "a"}, {name: "d", daemon: true}, {name: "c", critical: true}, {name: "z", succeeded: true}}, first: "nodeclaim"},
}

func hasFinalizer(o interface{ GetFinalizers() []string }) bool {
	return containsStr(o.GetFinalizers(), v1.TerminationFinalizer)
}

// c09After evaluates the finalization-order oracle at the instant a finalizer-removing write lands.
func c09After(c *world.Call, t *termRun) {
	if c.Err != "" || !(c.Verb == "patch" || c.Verb == "update") {
		return
	}
	w := t.w
	switch obj := c.Object.(type) {
	case *corev1.Node:
		if hasFinalizer(obj) || !strings.Contains(c.Note, "finalizers") {
			return
		}
		nc := w.GetNodeClaim(t.nc.Name)
		if nc == nil {
			return // the statement is about Nodes that have a NodeClaim
		}
		instGone := w.CP.Instance(obj.Spec.ProviderID) == nil
		ready := false
		for _, cnd := range obj.Status.Conditions {
			if cnd.Type == corev1.NodeReady && cnd.Status == corev1.ConditionTrue {
				ready = true
			}
		}
		if !ready && instGone {
			return // fast path documented by the statement
		}
		var why []string
		cordoned := false
		for _, tn := range obj.Spec.Taints {
			if tn.Key == v1.DisruptedTaintKey {
				cordoned = true
			}
		}
		if !cordoned {
			why = append(why, "node is not cordoned (no disruption taint)")
		}
		if rem := t.drainableRemaining(); len(rem) > 0 {
			why = append(why, fmt.Sprintf("drainable pods remain: %v", rem))
		}
		tgpElapsed := false
		if ts, ok := nc.Annotations[v1.NodeClaimTerminationTimestampAnnotationKey]; ok {
			if dl, err := time.Parse(time.RFC3339, ts); err == nil && w.Clock.Now().After(dl) {
				tgpElapsed = true
			}
		}
		if !tgpElapsed {
			if b := t.blockingAttachments(); len(b) > 0 {
				why = append(why, fmt.Sprintf("blocking volume attachments remain %v and the termination grace period has not elapsed", b))
			}
		}
		if !instGone {
			why = append(why, "the provider still reports the instance")
		}
		if len(why) > 0 {
			t.viol = append(t.viol, c01Violation{"node finalizer removed early: " + classOf(why), fmt.Sprintf("Node finalizer removed while %s", strings.Join(why, "; "))})
		}
	case *v1.NodeClaim:
		if hasFinalizer(obj) || !strings.Contains(c.Note, "finalizers") {
			return
		}
		var why []string
		if obj.StatusConditions().Get(v1.ConditionTypeRegistered).IsTrue() {
			nodes := &corev1.NodeList{}
			_ = w.Raw.List(w.Ctx, nodes)
			for _, n := range nodes.Items {
				if n.Spec.ProviderID == obj.Status.ProviderID {
					why = append(why, "its Node "+n.Name+" still exists")
				}
			}
		}
		if obj.Status.ProviderID != "" && w.CP.Instance(obj.Status.ProviderID) != nil {
			why = append(why, "the provider still reports the instance (leak)")
		}
		if len(why) > 0 {
			t.viol = append(t.viol, c01Violation{"nodeclaim finalizer removed early: " + classOf(why), fmt.Sprintf("NodeClaim finalizer removed while %s", strings.Join(why, "; "))})
		}
	}
}

func classOf(why []string) string {
	var c []string
	for _, w := range why {
		switch {
		case strings.Contains(w, "cordoned"):
			c = append(c, "not-cordoned")
		case strings.Contains(w, "drainable"):
			c = append(c, "pods-remain")
		case strings.Contains(w, "attachments"):
			c = append(c, "volumes-attached")
		case strings.Contains(w, "instance"):
			c = append(c, "instance-exists")
		case strings.Contains(w, "Node"):
			c = append(c, "node-exists")
		}
	}
	return strings.Join(c, "+")
}

func (t *termRun) blockingAttachments() []string {
	w := t.w
	vas := &storagev1.VolumeAttachmentList{}
	_ = w.Raw.List(w.Ctx, vas)
	undrainablePV := map[string]bool{}
	for name, ps := range t.spec {
		p := t.livePod(name)
		if p == nil || ps.pvc == "" {
			continue
		}
		stuck := p.DeletionTimestamp != nil && w.Clock.Since(p.DeletionTimestamp.Time) > time.Minute
		if ps.tolerates || ps.static || stuck {
			undrainablePV["pv-"+ps.pvc] = true
		}
	}
	var out []string
	for _, va := range vas.Items {
		if va.Spec.NodeName != "n1" || va.Spec.Source.PersistentVolumeName == nil {
			continue
		}
		if !undrainablePV[*va.Spec.Source.PersistentVolumeName] {
			out = append(out, va.Name)
		}
	}
	return out
}

func init() {
	register("C09", "fault_enumeration", func(r *ev.Rec) {
		bound, steps := 1, 30
		// environment events may also happen in the middle of a reconcile (before any of its calls); in the thorough tier
		// (two deviations) only together with nothing else, i.e. in a separate one-deviation exploration
		type passT struct {
			bound      int
			interleave bool
		}
		passes := []passT{{1, true}}
		if r.Tier == "thorough" {
			bound, steps = 2, 30
			passes = []passT{{1, true}, {2, false}}
		}
		r.Rule = fmt.Sprintf("%d termination scenarios (pods drainable / do-not-disrupt / PDB-blocked / stuck terminating / static / tolerating, volume attachments of drainable and undrainable pods, slow detach, pods that use their whole grace period, TGP none/60s/300s, registered or not, node NotReady, Node or NodeClaim deleted first) are driven for %d steps through the real node-termination controller, NodeClaim lifecycle controller (finalize) and eviction queue. "+
			"The default history is a fair cycle of all enabled reconciles, then the environment's progress events (pod finished terminating, volume detached, instance terminated), then clock +6s; every history with <=%d deviations is explored, a deviation being any other enabled reconcile/event inserted, an environment event happening in the MIDDLE of a reconcile (before any one of its calls; in the thorough tier as a separate one-deviation pass) (incl. clock jumps, node NotReady, instance vanishing, PDB flip, user deleting the Node, controller restart) or a failed API/provider call (reads included). "+
			"Oracle at the instant of every finalizer-removing write. non-trivial = distinct (scenario, history)", len(termScenarios), steps, bound)
		r.Assumptions = []string{"controllers do not preempt each other inside a reconcile; the ENVIRONMENT may act before any API / provider call of a reconcile", "a Node whose NodeClaim object no longer exists is outside the statement"}
		// passes outermost, cheapest first: every scenario is covered at the lower bound before the deeper pass starts, so a
		// deadline cuts the deepest pass only (the evidence says which pass completed)
		for pi, pass := range passes {
			pass := pass
			completed := true
			enum.RunEveryShard(r, int64(len(termScenarios)), func(i int64, l *ev.Local) {
				sc := termScenarios[i]
				bound, interleave := pass.bound, pass.interleave
				ex := &explore.Explorer{Bound: bound, MaxExecs: 400000, Stop: r.Expired, Shard: r.Shard, NShards: r.Shards}
				ex.Exec = func(run *explore.Run) {
					l.Mute = run.Replica
					t := buildTerm(sc)
					t.interleave = interleave
					t.run(run, steps, func(c *world.Call) bool { return true }, c09After)
					l.Eval()
					l.Trace()
					l.Nontrivial(sc.name + "/" + hist(t))
					w := t.w
					ncGone, nodeGone := w.GetNodeClaim(t.nc.Name) == nil, w.GetNode("n1") == nil
					l.Outcome(fmt.Sprintf("nodeclaim-gone=%v node-gone=%v", ncGone, nodeGone))
					if ncGone && t.nc.Status.ProviderID != "" && w.CP.Instance(t.nc.Status.ProviderID) != nil {
						t.viol = append(t.viol, c01Violation{"instance leaked", "NodeClaim is gone but the provider still has its instance"})
					}
					for _, v := range t.viol {
						l.Violation(v.Sig, fmt.Sprintf("%s  [scenario=%s history=%v]", v.Msg, sc.name, t.history), map[string]any{"scenario": sc.name, "choices": run.Choices(), "faults": run.Plan(), "history": t.history, "calls": callStrings(w)})
					}
					if run.Used == bound && len(t.history)%7 == 0 {
						l.Sample(map[string]any{"scenario": sc.name, "history": t.history, "nodeclaim_gone": ncGone, "node_gone": nodeGone})
					}
				}
				ex.Explore()
				noteDiverged(l, ex, "prefix")
				l.Transitions += int64(ex.Points)
				if ex.Capped {
					l.Outcome("exploration-capped")
					r.Exhaustive = false
				}
			})
			if r.Expired() {
				completed = false
			}
			if completed {
				// per shard process; summed by the parent: the pass is complete iff every shard completed it
				k := fmt.Sprintf("shards_that_completed_pass_%d_of_%d_(<=%d_deviations,_events_inside_a_reconcile_%v)_sum", pi+1, len(passes), pass.bound, pass.interleave)
				if v, ok := r.Extra[k].(float64); ok {
					r.Extra[k] = v + 1
				} else {
					r.Extra[k] = 1.0
				}
			}
		}
	})
}
