package checks

import (
	"fmt"
	"sort"
	"strings"
	"time"

	metav1 "k8s.io/apimachinery/pkg/apis/meta/v1"

	v1 "sigs.k8s.io/karpenter/pkg/apis/v1"

	"verif/internal/enum"
	"verif/internal/ev"
	"verif/oracle"
	"verif/world"
)

// C05 — disruption budgets are never exceeded.

type schedSpec struct {
	cron string
	dur  time.Duration
	hit  time.Time // one hit of the schedule near the scenario epoch
}

var c05Schedules = []schedSpec{
	{"", 0, time.Time{}},
	{"0 9 * * *", time.Hour, time.Date(2026, 1, 5, 9, 0, 0, 0, time.UTC)},
	{"*/30 * * * *", 10 * time.Minute, time.Date(2026, 1, 5, 12, 30, 0, 0, time.UTC)},
	{"@daily", 24 * time.Hour, time.Date(2026, 1, 5, 0, 0, 0, 0, time.UTC)},
	{"0 0 1 * *", 2 * time.Hour, time.Date(2026, 2, 1, 0, 0, 0, 0, time.UTC)},
	{"30 8 * * *", 90 * time.Minute, time.Date(2026, 1, 6, 8, 30, 0, 0, time.UTC)},
	{"a b c d e", time.Hour, time.Date(2026, 1, 5, 9, 0, 0, 0, time.UTC)},
	{"DURATION-ONLY", time.Hour, time.Date(2026, 1, 5, 9, 0, 0, 0, time.UTC)},
}

var c05Nodes = []string{"0", "1", "2", "10%", "33%", "50%", "100%"}
var c05Reasons = [][]string{nil, {}, {"Empty"}, {"Drifted"}, {"Underutilized"}, {"Empty", "Drifted"}}

type budgetSpec struct {
	nodes   int
	reasons int
	sched   int
}

func (b budgetSpec) oracle() oracle.Budget {
	s := c05Schedules[b.sched]
	ob := oracle.Budget{Nodes: c05Nodes[b.nodes], Reasons: c05Reasons[b.reasons]}
	switch {
	case s.cron == "":
	case s.cron == "DURATION-ONLY":
		ob.HasDur, ob.Duration = true, s.dur
	default:
		ob.Schedule, ob.HasDur, ob.Duration = s.cron, true, s.dur
	}
	return ob
}

func (b budgetSpec) api() v1.Budget {
	s := c05Schedules[b.sched]
	out := v1.Budget{Nodes: c05Nodes[b.nodes]}
	if r := c05Reasons[b.reasons]; r != nil {
		out.Reasons = []v1.DisruptionReason{}
		for _, x := range r {
			out.Reasons = append(out.Reasons, v1.DisruptionReason(x))
		}
	}
	switch {
	case s.cron == "":
	case s.cron == "DURATION-ONLY":
		out.Duration = &metav1.Duration{Duration: s.dur}
	default:
		c := s.cron
		out.Schedule = &c
		out.Duration = &metav1.Duration{Duration: s.dur}
	}
	return out
}

func (b budgetSpec) String() string {
	return fmt.Sprintf("{nodes:%s reasons:%v schedule:%q/%v}", c05Nodes[b.nodes], reasonsStr(c05Reasons[b.reasons]), c05Schedules[b.sched].cron, c05Schedules[b.sched].dur)
}

func reasonsStr(r []string) string {
	if r == nil {
		return "unset"
	}
	return "[" + strings.Join(r, ",") + "]"
}

func c05Arithmetic(r *ev.Rec) {
	var specs []budgetSpec
	for n := range c05Nodes {
		for rs := range c05Reasons {
			for s := range c05Schedules {
				specs = append(specs, budgetSpec{n, rs, s})
			}
		}
	}
	// single budgets exhaustively; pairs: first budget from the full list, second from a reduced list
	var second []budgetSpec
	for _, b := range specs {
		if (b.nodes == 1 || b.nodes == 5) && b.sched <= 2 {
			second = append(second, b)
		}
	}
	second = append([]budgetSpec{{-1, 0, 0}}, second...) // -1 = no second budget
	reasons := []string{"Empty", "Drifted", "Underutilized"}
	offsets := []time.Duration{-time.Second, 0, time.Second}
	maxN := 12
	if r.Tier != "thorough" {
		maxN = 6
	}
	r.Extra["arithmetic_budget_specs"] = len(specs)
	enum.Run(r, enum.Size(len(specs), len(second)), func(idx int64, l *ev.Local) {
		d := enum.Odo(idx, len(specs), len(second))
		list := []budgetSpec{specs[d[0]]}
		if second[d[1]].nodes >= 0 {
			list = append(list, second[d[1]])
		}
		np := world.NodePool("default")
		np.Spec.Disruption.Budgets = nil
		var ob []oracle.Budget
		for _, b := range list {
			np.Spec.Disruption.Budgets = append(np.Spec.Disruption.Budgets, b.api())
			ob = append(ob, b.oracle())
		}
		// instants around the window edges of the first budget's schedule (or the epoch)
		var instants []time.Time
		s := c05Schedules[list[0].sched]
		if s.hit.IsZero() {
			instants = []time.Time{world.Epoch}
		} else {
			for _, o := range offsets {
				instants = append(instants, s.hit.Add(o), s.hit.Add(s.dur).Add(o))
			}
		}
		for _, now := range instants {
			clk := world.NewAutoClock(now)
			for n := 0; n <= maxN; n++ {
				for _, reason := range reasons {
					l.Eval()
					got := np.MustGetAllowedDisruptions(clk, n, v1.DisruptionReason(reason))
					want := oracle.Allowed(ob, reason, n, now)
					if got != want {
						l.Violation(c05Class(list, got, want), fmt.Sprintf("budgets %v, %d nodes, reason %s at %s: allowed=%d, the statement gives %d", list, n, reason, now.Format(time.RFC3339), got, want),
							map[string]any{"budgets": fmt.Sprint(list), "nodes": n, "reason": reason, "now": now})
					}
					l.Outcome(fmt.Sprintf("allowed=%s", bucket(got)))
				}
			}
		}
		l.NontrivialH(ev.H("arith/" + fmt.Sprint(list)))
		if idx == 1234 {
			l.Sample(map[string]any{"budgets": fmt.Sprint(list), "instants": len(instants)})
		}
	})
}

func bucket(n int) string {
	switch {
	case n == 0:
		return "0"
	case n > 1000:
		return "unbounded"
	}
	return "n"
}

func c05Class(list []budgetSpec, got, want int) string {
	var parts []string
	for _, b := range list {
		cls := "reasons=" + reasonsStr(c05Reasons[b.reasons])
		if c05Reasons[b.reasons] != nil && len(c05Reasons[b.reasons]) > 0 {
			cls = "reasons=listed"
		}
		sc := "unscheduled"
		switch c05Schedules[b.sched].cron {
		case "":
		case "a b c d e", "DURATION-ONLY":
			sc = "malformed"
		default:
			sc = "scheduled"
		}
		pct := "count"
		if strings.HasSuffix(c05Nodes[b.nodes], "%") {
			pct = "percent"
		}
		parts = append(parts, cls+"/"+sc+"/"+pct)
	}
	sort.Strings(parts)
	dir := "too permissive"
	if got < want {
		dir = "too strict"
	}
	return "budget arithmetic " + dir + ": " + strings.Join(parts, " + ")
}

// ---- system layer

var c05NodeStates = []string{"empty", "drifted", "pod", "not-ready", "ready-unknown", "deleting", "marked", "uninitialized", "instance-terminating"}

type c05Budgets struct {
	name string
	list []budgetSpec
}

var c05SysBudgets = []c05Budgets{
	{"1", []budgetSpec{{1, 0, 0}}},
	{"2", []budgetSpec{{2, 0, 0}}},
	{"0", []budgetSpec{{0, 0, 0}}},
	{"33%", []budgetSpec{{4, 0, 0}}},
	{"50%", []budgetSpec{{5, 0, 0}}},
	{"100% + 1 for Empty", []budgetSpec{{6, 0, 0}, {1, 2, 0}}},
	{"100% + 0 for Drifted", []budgetSpec{{6, 0, 0}, {0, 3, 0}}},
	{"2 + inactive-scheduled 0", []budgetSpec{{2, 0, 0}, {0, 0, 1}}},
	{"100% + active-scheduled 1", []budgetSpec{{6, 0, 0}, {1, 0, 3}}},
	{"2 + malformed", []budgetSpec{{2, 0, 0}, {6, 0, 6}}},
	{"1 with reasons: []", []budgetSpec{{1, 1, 0}}},
}

func multisets(n, k int) [][]int { // multisets of size exactly k over n symbols
	var out [][]int
	var rec func(start int, cur []int)
	rec = func(start int, cur []int) {
		if len(cur) == k {
			out = append(out, append([]int{}, cur...))
			return
		}
		for i := start; i < n; i++ {
			rec(i, append(cur, i))
		}
	}
	rec(0, nil)
	return out
}

func c05System(r *ev.Rec) {
	sizes := []int{2, 3, 4}
	rounds := 3
	if r.Tier == "thorough" {
		sizes, rounds = []int{2, 3, 4, 5, 6}, 3
	}
	var comps [][]int
	for _, k := range sizes {
		comps = append(comps, multisets(len(c05NodeStates), k)...)
	}
	// queue-executes-...: after every round the orchestration queue carries out the delete-only commands (the NodeClaims
	// get their deletionTimestamp in the API) while the NodeClaim informer LAGS: the cluster cache has not seen the
	// deletions when the next round runs, so only the queue's in-memory marks say that those nodes are going away
	events := []string{"none", "healthy-node-goes-not-ready-during-validation", "healthy-node-deleted-during-validation", "queue-executes-delete-commands-while-the-nodeclaim-informer-lags"}
	r.Extra["system_pool_compositions"] = len(comps)
	enum.Run(r, enum.Size(len(comps), len(c05SysBudgets), len(events)), func(idx int64, l *ev.Local) {
		d := enum.Odo(idx, len(comps), len(c05SysBudgets), len(events))
		comp, bud, event := comps[d[0]], c05SysBudgets[d[1]], events[d[2]]
		np := world.NodePool("default")
		np.Spec.Disruption.Budgets = nil
		var ob []oracle.Budget
		for _, b := range bud.list {
			np.Spec.Disruption.Budgets = append(np.Spec.Disruption.Budgets, b.api())
			ob = append(ob, b.oracle())
		}
		var nodes []dNode
		var states []string
		for i, s := range comp {
			st := c05NodeStates[s]
			states = append(states, st)
			n := dNode{name: fmt.Sprintf("n%d", i), pool: "default", typ: "m", zone: "a", ct: "on-demand"}
			switch st {
			case "drifted":
				n.drifted = true
				n.pods = []dPod{{name: fmt.Sprintf("q%d", i), cpu: 300}}
			case "pod":
				n.pods = []dPod{{name: fmt.Sprintf("q%d", i), cpu: 300}}
			case "not-ready":
				n.notReady = true
			case "ready-unknown":
				n.readyUnknown = true
			case "deleting":
				n.deleting = true
			case "marked":
				n.marked = true
			case "uninitialized":
				n.stage = "registered"
			case "instance-terminating":
				n.terminating = true
				n.deleting = true
			}
			nodes = append(nodes, n)
		}
		env := buildDisrupt(dWorld{catalog: K1, pools: []*v1.NodePool{np}, nodes: nodes})
		w := env.W
		fired := false
		w.Clock.OnWait = func(dd time.Duration) {
			if fired || event == "none" || dd < 10*time.Second {
				return
			}
			// pick the first healthy node that is not (yet) part of a command
			for i, st := range states {
				if st != "empty" && st != "pod" && st != "drifted" {
					continue
				}
				if env.Queue.HasAny(env.PIDs[nodes[i].name]) {
					continue
				}
				n := w.GetNode(nodes[i].name)
				if n == nil {
					continue
				}
				fired = true
				if event == "healthy-node-goes-not-ready-during-validation" {
					for k := range n.Status.Conditions {
						n.Status.Conditions[k].Status = "False"
					}
					w.EnvUpdate(n)
				} else {
					nc := w.GetNodeClaim("nc-" + nodes[i].name)
					dt := metaT(w.Clock.Now())
					nc.DeletionTimestamp = &dt
					w.EnvUpdate(nc)
				}
				w.SyncCluster()
				return
			}
		}
		desc := fmt.Sprintf("pool %v budgets %s event=%s", states, bud.name, event)
		for round := 0; round < rounds; round++ {
			// state of the pool at the start of the round
			type ns struct{ init, term, disrupting bool }
			view := map[string]ns{}
			for n := range w.Cluster.Nodes() {
				if !n.Managed() || n.Node == nil {
					continue
				}
				ready := false
				for _, c := range n.Node.Status.Conditions {
					if c.Type == "Ready" && c.Status == "True" {
						ready = true
					}
				}
				view[n.Node.Name] = ns{init: n.Initialized(), term: n.NodeClaim.StatusConditions().Get(v1.ConditionTypeInstanceTerminating).IsTrue(), disrupting: !ready || n.MarkedForDeletion()}
			}
			fired = false
			cmds, err := env.round(allMethods...)
			l.Eval()
			if err != nil {
				l.Outcome("reconcile-error")
			}
			if len(cmds) == 0 {
				l.Outcome("no-command")
				break
			}
			now := w.Clock.Now()
			byReason := map[string][]string{}
			for _, c := range cmds {
				byReason[string(c.Reason())] = append(byReason[string(c.Reason())], cmdCandidates(c)...)
			}
			for reason, sel := range byReason {
				// nodes not ready / being deleted, evaluated at the end of the round (after the validation delay) minus the newly selected
				selected := map[string]bool{}
				for _, s := range sel {
					selected[s] = true
				}
				nWith, nWithout, disrupting := 0, 0, 0
				for n := range w.Cluster.Nodes() {
					if !n.Managed() || n.Node == nil || !n.Initialized() {
						continue
					}
					nWith++
					term := n.NodeClaim.StatusConditions().Get(v1.ConditionTypeInstanceTerminating).IsTrue()
					if !term {
						nWithout++
					}
					if selected[n.Node.Name] {
						continue
					}
					ready := false
					for _, c := range n.Node.Status.Conditions {
						if c.Type == "Ready" && c.Status == "True" {
							ready = true
						}
					}
					apiDeleting := false
					if nc := w.GetNodeClaim(n.NodeClaim.Name); nc != nil && nc.DeletionTimestamp != nil {
						apiDeleting = true // being deleted in the API, whether or not the cache has seen it yet
					}
					if (!ready || n.MarkedForDeletion() || apiDeleting) && !term {
						disrupting++
					}
				}
				a1, a2 := oracle.Allowed(ob, reason, nWith, now), oracle.Allowed(ob, reason, nWithout, now)
				allowed := a1
				if a2 > allowed {
					allowed = a2
				}
				l.NontrivialH(ev.H(fmt.Sprintf("sys/%d/%d/%s", idx, round, reason)))
				l.Outcome(fmt.Sprintf("reason=%s selected=%d", reason, len(sel)))
				if len(sel)+disrupting > allowed {
					l.Violation("budget exceeded: "+budgetClass(bud), fmt.Sprintf("round %d reason %s: newly selected %v + %d nodes already not ready / being deleted > allowed %d (of %d/%d initialized nodes)  [%s; commands %v]", round, reason, sel, disrupting, allowed, nWith, nWithout, desc, cmdStrings(cmds)),
						map[string]any{"case": desc, "round": round})
				}
			}
			_ = view
			if event == "queue-executes-delete-commands-while-the-nodeclaim-informer-lags" {
				for _, c := range cmds {
					if len(c.Replacements) > 0 || len(c.Candidates) == 0 {
						continue
					}
					if obj := w.GetNodeClaim(c.Candidates[0].NodeClaim.Name); obj != nil {
						_, _ = env.Queue.Reconcile(w.Ctx, obj)
					}
				}
			}
			if idx%4099 == 17 && round == 0 {
				l.Sample(map[string]any{"case": desc, "round0_commands": cmdStrings(cmds)})
			}
		}
	})
}

func budgetClass(b c05Budgets) string {
	switch {
	case strings.Contains(b.name, "reasons: []"):
		return "budget with an empty reasons list"
	case strings.Contains(b.name, "malformed"):
		return "malformed budget in the list"
	case strings.Contains(b.name, "scheduled"):
		return "scheduled budget"
	case strings.Contains(b.name, "for "):
		return "per-reason budget"
	case strings.Contains(b.name, "%"):
		return "percentage budget"
	}
	return "count budget"
}

func init() {
	register("C05", "exploration", func(r *ev.Rec) {
		r.Rule = "arithmetic layer: every budget {nodes in 0,1,2,10%,33%,50%,100%} x {reasons unset, [], [Empty], [Drifted], [Underutilized], [Empty,Drifted]} x {8 schedule/duration variants incl. unparsable and duration-only}, alone and paired with a second budget, x instants {hit-1s, hit, hit+1s, hit+d-1s, hit+d, hit+d+1s} x N in 0..6/12 x 3 reasons through MustGetAllowedDisruptions against an independent oracle (own cron matcher by minute scanning); " +
			"system layer: every pool composition (multisets of 2..4/5 nodes over {empty, drifted, with pod, not-ready, deleting, marked, uninitialized, instance-terminating}) x 11 budget lists x {no event, a healthy node goes NotReady / is deleted during the 15s validation delay, the orchestration queue executes the delete-only commands between the rounds while the NodeClaim informer lags} driven through the real disruption controller with all methods for 3 consecutive rounds (otherwise with commands left in the queue). Oracle per round and reason: newly selected candidates + nodes not ready or being deleted <= allowed by the oracle (flagged only if exceeded under both denominators). non-trivial = distinct budget list / distinct (system case, round, reason) with a command"
		r.Assumptions = []string{"cron schedules restricted to the subset the oracle's matcher implements (*, */n, numbers, lists, @daily, @hourly)"}
		c05Arithmetic(r)
		c05System(r)
	})
}
