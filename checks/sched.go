package checks

import (
	"fmt"
	"sort"
	"strings"
	"time"

	appsv1 "k8s.io/api/apps/v1"
	corev1 "k8s.io/api/core/v1"
	storagev1 "k8s.io/api/storage/v1"
	"k8s.io/apimachinery/pkg/api/resource"
	metav1 "k8s.io/apimachinery/pkg/apis/meta/v1"
	"k8s.io/apimachinery/pkg/types"
	"sigs.k8s.io/controller-runtime/pkg/client"

	v1 "sigs.k8s.io/karpenter/pkg/apis/v1"
	"sigs.k8s.io/karpenter/pkg/controllers/provisioning/scheduling"
	"sigs.k8s.io/karpenter/pkg/operator/options"

	"verif/internal/explore"
	"verif/oracle"
	"verif/world"
)

// ---------------------------------------------------------------------------------------------------------------------
// Generator G: closed alphabets for scheduler worlds (DESIGN §3, Appendix B).

func of(zone, ct string, price float64) world.OfSpec {
	return world.OfSpec{Zone: zone, CT: ct, Price: price, Available: true}
}

func std(base float64) []world.OfSpec {
	return []world.OfSpec{of("a", "spot", base*0.6), of("b", "spot", base*0.65), of("a", "on-demand", base), of("b", "on-demand", base*1.05)}
}

var catalogs = map[string][]world.ITSpec{
	// K1: three sizes, both zones, spot < on-demand
	"K1": {{Name: "s", CPU: 2, MemGi: 4, Pods: 4, Offers: std(1)}, {Name: "m", CPU: 4, MemGi: 8, Pods: 6, Offers: std(2)}, {Name: "l", CPU: 8, MemGi: 16, Pods: 8, Offers: std(4)}},
	// K2: m on-demand unavailable in a, s is arm64, l spot only in b
	"K2": {{Name: "s", CPU: 2, MemGi: 4, Pods: 4, Arch: "arm64", Offers: std(1)},
		{Name: "m", CPU: 4, MemGi: 8, Pods: 6, Offers: []world.OfSpec{of("a", "spot", 1.2), of("b", "spot", 1.3), {Zone: "a", CT: "on-demand", Price: 0.4, Available: false}, of("b", "on-demand", 2.1)}},
		{Name: "l", CPU: 8, MemGi: 16, Pods: 8, Offers: []world.OfSpec{of("b", "spot", 2.5), of("a", "on-demand", 4), of("b", "on-demand", 4.1)}}},
	// K3: reserved offerings (shared reservation id r1 on both types), plus on-demand
	"K3": {{Name: "m", CPU: 4, MemGi: 8, Pods: 6, Offers: []world.OfSpec{{Zone: "a", CT: "reserved", Price: 0.01, Available: true, RID: "r1", ResCap: 1}, of("a", "on-demand", 2), of("b", "on-demand", 2.1)}},
		{Name: "l", CPU: 8, MemGi: 16, Pods: 8, Offers: []world.OfSpec{{Zone: "a", CT: "reserved", Price: 0.02, Available: true, RID: "r1", ResCap: 1}, {Zone: "b", CT: "reserved", Price: 0.02, Available: true, RID: "r2", ResCap: 2}, of("a", "on-demand", 4), of("b", "on-demand", 4.1)}}},
	// KZ: four types of one size whose price ORDER differs per zone (rising in zone a, falling in zone b): the cheapest
	// types for a zone-a request are the dearest for a zone-b request
	"KZ": {{Name: "t1", CPU: 4, MemGi: 8, Pods: 6, Offers: []world.OfSpec{of("a", "on-demand", 1), of("b", "on-demand", 4)}},
		{Name: "t2", CPU: 4, MemGi: 8, Pods: 6, Offers: []world.OfSpec{of("a", "on-demand", 2), of("b", "on-demand", 3)}},
		{Name: "t3", CPU: 4, MemGi: 8, Pods: 6, Offers: []world.OfSpec{of("a", "on-demand", 3), of("b", "on-demand", 2)}},
		{Name: "t4", CPU: 4, MemGi: 8, Pods: 6, Offers: []world.OfSpec{of("a", "on-demand", 4), of("b", "on-demand", 1)}}},
	// K4: provider labels fam / gen, one offering with a smaller capacity override (m, zone b spot) and one with a
	// LARGER one (s, zone a on-demand: 4 cpu instead of 2)
	"K4": {{Name: "s", CPU: 2, MemGi: 4, Pods: 4, Fam: "x", Gen: "1", Offers: []world.OfSpec{of("a", "spot", 0.6), of("b", "spot", 0.65), {Zone: "a", CT: "on-demand", Price: 1, Available: true, OverCPU: 4}, of("b", "on-demand", 1.05)}},
		{Name: "m", CPU: 4, MemGi: 8, Pods: 6, Fam: "y", Gen: "2", Offers: []world.OfSpec{of("a", "spot", 1.2), {Zone: "b", CT: "spot", Price: 1.0, Available: true, OverCPU: 3}, of("a", "on-demand", 2), of("b", "on-demand", 2.1)}},
		{Name: "l", CPU: 8, MemGi: 16, Pods: 8, Fam: "x", Gen: "3", Ext: map[string]int{"example.com/gpu": 1}, Offers: std(4)}},
}

type poolCfg struct {
	name  string
	pools func() []*v1.NodePool
}

func reqsMod(reqs ...v1.NodeSelectorRequirementWithMinValues) func(*v1.NodePool) {
	return func(np *v1.NodePool) { np.Spec.Template.Spec.Requirements = append(np.Spec.Template.Spec.Requirements, reqs...) }
}
func weight(w int32) func(*v1.NodePool)  { return func(np *v1.NodePool) { np.Spec.Weight = &w } }
func taintMod(t ...corev1.Taint) func(*v1.NodePool) {
	return func(np *v1.NodePool) { np.Spec.Template.Spec.Taints = append(np.Spec.Template.Spec.Taints, t...) }
}
func startupMod(t ...corev1.Taint) func(*v1.NodePool) {
	return func(np *v1.NodePool) { np.Spec.Template.Spec.StartupTaints = append(np.Spec.Template.Spec.StartupTaints, t...) }
}
func limitsMod(cpu string) func(*v1.NodePool) {
	return func(np *v1.NodePool) { np.Spec.Limits = v1.Limits{corev1.ResourceCPU: resource.MustParse(cpu)} }
}
func labelMod(k, val string) func(*v1.NodePool) {
	return func(np *v1.NodePool) {
		if np.Spec.Template.Labels == nil {
			np.Spec.Template.Labels = map[string]string{}
		}
		np.Spec.Template.Labels[k] = val
	}
}
func two() *int { x := 2; return &x }

var poolCfgs = []poolCfg{
	{"open", func() []*v1.NodePool { return []*v1.NodePool{world.NodePool("default")} }},
	{"zone-a", func() []*v1.NodePool {
		return []*v1.NodePool{world.NodePool("default", reqsMod(oracle.R(corev1.LabelTopologyZone, corev1.NodeSelectorOpIn, "a")))}
	}},
	{"team-xy", func() []*v1.NodePool {
		return []*v1.NodePool{world.NodePool("default", reqsMod(oracle.R(world.TeamKey, corev1.NodeSelectorOpIn, "x", "y")), labelMod("env", "prod"))}
	}},
	{"it-minvalues-2", func() []*v1.NodePool {
		return []*v1.NodePool{world.NodePool("default", reqsMod(v1.NodeSelectorRequirementWithMinValues{Key: corev1.LabelInstanceTypeStable, Operator: corev1.NodeSelectorOpExists, MinValues: two()}))}
	}},
	{"taint-noschedule", func() []*v1.NodePool {
		return []*v1.NodePool{world.NodePool("default", taintMod(corev1.Taint{Key: "dedicated", Value: "x", Effect: corev1.TaintEffectNoSchedule}))}
	}},
	{"taint-prefer", func() []*v1.NodePool {
		return []*v1.NodePool{world.NodePool("default", taintMod(corev1.Taint{Key: "soft", Value: "x", Effect: corev1.TaintEffectPreferNoSchedule}))}
	}},
	{"startup-taint", func() []*v1.NodePool {
		return []*v1.NodePool{world.NodePool("default", startupMod(corev1.Taint{Key: "boot", Value: "x", Effect: corev1.TaintEffectNoSchedule}))}
	}},
	{"weighted-l-then-open", func() []*v1.NodePool {
		return []*v1.NodePool{world.NodePool("heavy", weight(10), reqsMod(oracle.R(corev1.LabelInstanceTypeStable, corev1.NodeSelectorOpIn, "l"), oracle.R(corev1.LabelTopologyZone, corev1.NodeSelectorOpIn, "b"))), world.NodePool("default")}
	}},
	{"cpu-limit-6", func() []*v1.NodePool { return []*v1.NodePool{world.NodePool("default", limitsMod("6"))} }},
	{"on-demand-only", func() []*v1.NodePool {
		return []*v1.NodePool{world.NodePool("default", reqsMod(oracle.R(v1.CapacityTypeLabelKey, corev1.NodeSelectorOpIn, "on-demand")))}
	}},
	{"gen-gt-1-notin-3", func() []*v1.NodePool {
		return []*v1.NodePool{world.NodePool("default", reqsMod(oracle.R(world.GenKey, corev1.NodeSelectorOpGt, "1"), oracle.R(corev1.LabelArchStable, corev1.NodeSelectorOpNotIn, "arm64")))}
	}},
	{"two-equal-pools", func() []*v1.NodePool {
		return []*v1.NodePool{world.NodePool("alpha", taintMod(corev1.Taint{Key: "dedicated", Value: "x", Effect: corev1.TaintEffectNoSchedule})), world.NodePool("beta", reqsMod(oracle.R(corev1.LabelTopologyZone, corev1.NodeSelectorOpIn, "b")))}
	}},
}

// Existing capacity configurations. Each returns node specs (pool "default" or first pool) and bound pods.
type nodeCfg struct {
	name  string
	nodes func(cat []world.ITSpec, pool string) ([]world.NodeSpec, []*corev1.Pod)
	// daemonsRunOn: on these nodes the pods of the case's daemonsets are already running (a settled node); on the others
	// they are still to come (a fresh node)
	daemonsRunOn []string
}

func pickType(cat []world.ITSpec, name string) world.ITSpec {
	for _, t := range cat {
		if t.Name == name {
			return t
		}
	}
	return cat[0]
}
func pickOffer(t world.ITSpec, zone string) world.OfSpec {
	for _, o := range t.Offers {
		if o.Zone == zone && o.Available && o.CT != "reserved" {
			return o
		}
	}
	for _, o := range t.Offers {
		if o.Available {
			return o
		}
	}
	return t.Offers[0]
}

var nodeCfgs = []nodeCfg{
	{name: "none", nodes: func(cat []world.ITSpec, pool string) ([]world.NodeSpec, []*corev1.Pod) { return nil, nil }},
	{name: "initialized-m-a+1pod", nodes: func(cat []world.ITSpec, pool string) ([]world.NodeSpec, []*corev1.Pod) {
		t := pickType(cat, "m")
		return []world.NodeSpec{{Name: "n1", Pool: pool, Type: t, Offer: pickOffer(t, "a")}}, []*corev1.Pod{world.Pod("b1", 1500, world.Bound("n1"), hostPort(8080, ""))}
	}},
	{name: "claim-only-m-b", nodes: func(cat []world.ITSpec, pool string) ([]world.NodeSpec, []*corev1.Pod) {
		t := pickType(cat, "m")
		return []world.NodeSpec{{Name: "n1", Pool: pool, Type: t, Offer: pickOffer(t, "b"), Stage: "claim-only"}}, nil
	}},
	{name: "registered-uninit-startup-taint", nodes: func(cat []world.ITSpec, pool string) ([]world.NodeSpec, []*corev1.Pod) {
		t := pickType(cat, "m")
		return []world.NodeSpec{{Name: "n1", Pool: pool, Type: t, Offer: pickOffer(t, "a"), Stage: "registered",
			Startup: []corev1.Taint{{Key: "boot", Value: "x", Effect: corev1.TaintEffectNoSchedule}},
			NodeOnly: []corev1.Taint{{Key: "node.kubernetes.io/not-ready", Effect: corev1.TaintEffectNoSchedule}}}}, nil
	}},
	// registered, not yet initialized, and CORDONED after registration: a NoSchedule taint that exists on the Node object
	// only and is neither a startup nor a known ephemeral taint must repel pods that do not tolerate it
	{name: "registered-uninit-cordoned", nodes: func(cat []world.ITSpec, pool string) ([]world.NodeSpec, []*corev1.Pod) {
		t := pickType(cat, "m")
		return []world.NodeSpec{{Name: "n1", Pool: pool, Type: t, Offer: pickOffer(t, "a"), Stage: "registered",
			NodeOnly: []corev1.Taint{{Key: "node.kubernetes.io/not-ready", Effect: corev1.TaintEffectNoSchedule}, {Key: corev1.TaintNodeUnschedulable, Effect: corev1.TaintEffectNoSchedule}}}}, nil
	}},
	{name: "deleting-l+unmanaged-s", nodes: func(cat []world.ITSpec, pool string) ([]world.NodeSpec, []*corev1.Pod) {
		l, s := pickType(cat, "l"), pickType(cat, "s")
		return []world.NodeSpec{{Name: "n1", Pool: pool, Type: l, Offer: pickOffer(l, "a"), Deleting: true}, {Name: "u1", Pool: "", Type: s, Offer: pickOffer(s, "b")}},
			[]*corev1.Pod{world.Pod("b1", 500, world.Bound("n1")), world.Pod("b2", 300, world.Bound("u1"))}
	}},
	{name: "two-nodes-s-a-tainted+m-b", nodes: func(cat []world.ITSpec, pool string) ([]world.NodeSpec, []*corev1.Pod) {
		s, m := pickType(cat, "s"), pickType(cat, "m")
		return []world.NodeSpec{{Name: "n1", Pool: pool, Type: s, Offer: pickOffer(s, "a"), Taints: []corev1.Taint{{Key: "dedicated", Value: "x", Effect: corev1.TaintEffectNoSchedule}}},
			{Name: "n2", Pool: pool, Type: m, Offer: pickOffer(m, "b"), Labels: map[string]string{world.TeamKey: "x"}}}, []*corev1.Pod{world.Pod("b1", 2000, world.Bound("n2"))}
	}},
	// two nodes of one pool with the same daemonsets: n1 has settled (its daemon pods run, a workload nearly fills it),
	// n2 has just registered and its daemon pods have not landed yet — the overhead still has to be reserved on n2
	{name: "settled-m-a-daemons-running+fresh-s-a", nodes: func(cat []world.ITSpec, pool string) ([]world.NodeSpec, []*corev1.Pod) {
		m, s := pickType(cat, "m"), pickType(cat, "s")
		return []world.NodeSpec{{Name: "n1", Pool: pool, Type: m, Offer: pickOffer(m, "a")},
			{Name: "n2", Pool: pool, Type: s, Offer: pickOffer(s, "a"), Stage: "registered", NodeOnly: []corev1.Taint{{Key: "node.kubernetes.io/not-ready", Effect: corev1.TaintEffectNoSchedule}}}}, []*corev1.Pod{world.Pod("b1", 2800, world.Bound("n1"))}
	}, daemonsRunOn: []string{"n1"}},
}

type dsCfg struct {
	name string
	ds   func() []*appsv1.DaemonSet
}

var dsCfgs = []dsCfg{
	{"none", func() []*appsv1.DaemonSet { return nil }},
	{"ds-500m", func() []*appsv1.DaemonSet { return []*appsv1.DaemonSet{world.DaemonSet("agent", 500)} }},
	{"ds-300m-hostport-8080", func() []*appsv1.DaemonSet {
		return []*appsv1.DaemonSet{world.DaemonSet("proxy", 300, func(d *appsv1.DaemonSet) {
			d.Spec.Template.Spec.Containers[0].Ports = []corev1.ContainerPort{{ContainerPort: 8080, HostPort: 8080}}
		})}
	}},
	{"ds-1000m-zone-b-only", func() []*appsv1.DaemonSet {
		return []*appsv1.DaemonSet{world.DaemonSet("zonal", 1000, func(d *appsv1.DaemonSet) {
			d.Spec.Template.Spec.NodeSelector = map[string]string{corev1.LabelTopologyZone: "b"}
		})}
	}},
}

// ---- pod shapes

func hostPort(port int32, ip string) func(*corev1.Pod) {
	return func(p *corev1.Pod) {
		p.Spec.Containers[0].Ports = append(p.Spec.Containers[0].Ports, corev1.ContainerPort{ContainerPort: port, HostPort: port, HostIP: ip})
	}
}
func sel(k, val string) func(*corev1.Pod) {
	return func(p *corev1.Pod) {
		if p.Spec.NodeSelector == nil {
			p.Spec.NodeSelector = map[string]string{}
		}
		p.Spec.NodeSelector[k] = val
	}
}
func nodeAff(p *corev1.Pod) *corev1.NodeAffinity {
	if p.Spec.Affinity == nil {
		p.Spec.Affinity = &corev1.Affinity{}
	}
	if p.Spec.Affinity.NodeAffinity == nil {
		p.Spec.Affinity.NodeAffinity = &corev1.NodeAffinity{}
	}
	return p.Spec.Affinity.NodeAffinity
}
func requiredTerms(terms ...[]corev1.NodeSelectorRequirement) func(*corev1.Pod) {
	return func(p *corev1.Pod) {
		na := nodeAff(p)
		na.RequiredDuringSchedulingIgnoredDuringExecution = &corev1.NodeSelector{}
		for _, t := range terms {
			na.RequiredDuringSchedulingIgnoredDuringExecution.NodeSelectorTerms = append(na.RequiredDuringSchedulingIgnoredDuringExecution.NodeSelectorTerms, corev1.NodeSelectorTerm{MatchExpressions: t})
		}
	}
}
func preferred(w int32, exprs ...corev1.NodeSelectorRequirement) func(*corev1.Pod) {
	return func(p *corev1.Pod) {
		na := nodeAff(p)
		na.PreferredDuringSchedulingIgnoredDuringExecution = append(na.PreferredDuringSchedulingIgnoredDuringExecution, corev1.PreferredSchedulingTerm{Weight: w, Preference: corev1.NodeSelectorTerm{MatchExpressions: exprs}})
	}
}
func nsr(k string, op corev1.NodeSelectorOperator, vals ...string) corev1.NodeSelectorRequirement {
	return corev1.NodeSelectorRequirement{Key: k, Operator: op, Values: vals}
}
func tolerate(key string) func(*corev1.Pod) {
	return func(p *corev1.Pod) {
		p.Spec.Tolerations = append(p.Spec.Tolerations, corev1.Toleration{Key: key, Operator: corev1.TolerationOpExists})
	}
}
func pvcVol(claim string) func(*corev1.Pod) {
	return func(p *corev1.Pod) {
		p.Spec.Volumes = append(p.Spec.Volumes, corev1.Volume{Name: "v-" + claim, VolumeSource: corev1.VolumeSource{PersistentVolumeClaim: &corev1.PersistentVolumeClaimVolumeSource{ClaimName: claim}}})
	}
}
func extRes(name string, n int64) func(*corev1.Pod) {
	return func(p *corev1.Pod) {
		p.Spec.Containers[0].Resources.Requests[corev1.ResourceName(name)] = *resource.NewQuantity(n, resource.DecimalSI)
		p.Spec.Containers[0].Resources.Limits = corev1.ResourceList{corev1.ResourceName(name): *resource.NewQuantity(n, resource.DecimalSI)}
	}
}

type podShape struct {
	name string
	cpu  int64
	mods []func(*corev1.Pod)
	// storage objects this shape needs
	storage string // "", "pv-b", "sc-a", "pv-b-limited"
}

var podShapes = []podShape{
	{name: "small", cpu: 500},
	{name: "medium", cpu: 1700},
	{name: "large", cpu: 5000},
	{name: "zone-a-selector", cpu: 800, mods: []func(*corev1.Pod){sel(corev1.LabelTopologyZone, "a")}},
	{name: "affinity-zone-b-or-a", cpu: 800, mods: []func(*corev1.Pod){requiredTerms([]corev1.NodeSelectorRequirement{nsr(corev1.LabelTopologyZone, corev1.NodeSelectorOpIn, "b"), nsr(corev1.LabelInstanceTypeStable, corev1.NodeSelectorOpIn, "xl")}, []corev1.NodeSelectorRequirement{nsr(corev1.LabelTopologyZone, corev1.NodeSelectorOpIn, "a")})}},
	{name: "preferred-zone-b+required-not-s", cpu: 800, mods: []func(*corev1.Pod){preferred(10, nsr(corev1.LabelTopologyZone, corev1.NodeSelectorOpIn, "b")), preferred(5, nsr(corev1.LabelInstanceTypeStable, corev1.NodeSelectorOpIn, "nope")), requiredTerms([]corev1.NodeSelectorRequirement{nsr(corev1.LabelInstanceTypeStable, corev1.NodeSelectorOpNotIn, "s")})}},
	{name: "arm64", cpu: 600, mods: []func(*corev1.Pod){sel(corev1.LabelArchStable, "arm64")}},
	{name: "fam-x", cpu: 700, mods: []func(*corev1.Pod){sel(world.FamKey, "x")}},
	{name: "team-y", cpu: 700, mods: []func(*corev1.Pod){sel(world.TeamKey, "y")}},
	{name: "tolerates-dedicated", cpu: 900, mods: []func(*corev1.Pod){tolerate("dedicated")}},
	{name: "hostport-8080", cpu: 400, mods: []func(*corev1.Pod){hostPort(8080, "")}},
	{name: "hostport-8080-localhost", cpu: 400, mods: []func(*corev1.Pod){hostPort(8080, "127.0.0.1")}},
	{name: "pv-zone-b", cpu: 600, mods: []func(*corev1.Pod){pvcVol("claim-b")}, storage: "pv-b"},
	{name: "unbound-pvc-sc-zone-a", cpu: 600, mods: []func(*corev1.Pod){pvcVol("claim-new")}, storage: "sc-a"},
	{name: "on-demand-selector", cpu: 900, mods: []func(*corev1.Pod){sel(v1.CapacityTypeLabelKey, "on-demand")}},
	{name: "ct-notin-spot", cpu: 900, mods: []func(*corev1.Pod){requiredTerms([]corev1.NodeSelectorRequirement{nsr(v1.CapacityTypeLabelKey, corev1.NodeSelectorOpNotIn, "spot")})}},
	{name: "gen-gt-1-lt-3", cpu: 900, mods: []func(*corev1.Pod){requiredTerms([]corev1.NodeSelectorRequirement{nsr(world.GenKey, corev1.NodeSelectorOpGt, "1"), nsr(world.GenKey, corev1.NodeSelectorOpLt, "3")})}},
	{name: "gpu", cpu: 900, mods: []func(*corev1.Pod){extRes("example.com/gpu", 1)}},
	{name: "nodepool-doesnotexist", cpu: 300, mods: []func(*corev1.Pod){requiredTerms([]corev1.NodeSelectorRequirement{nsr(v1.NodePoolLabelKey, corev1.NodeSelectorOpDoesNotExist)})}},
	{name: "zone-b-selector-large", cpu: 3500, mods: []func(*corev1.Pod){sel(corev1.LabelTopologyZone, "b")}},
}

// SchedCase selects one world from the alphabets.
type SchedCase struct {
	Catalog string
	Pool    int
	Nodes   int
	DS      int
	Pref    options.PreferencePolicy
	MinV    options.MinValuesPolicy
	Batch   []int // pod shape indices (sorted multiset); pod i is named p<i>
	Workers int
	Reserved bool
	// NodesInHeaviest: the existing nodes belong to the FIRST pool of the configuration (default: the last one)
	NodesInHeaviest bool
}

func (c SchedCase) String() string {
	names := make([]string, len(c.Batch))
	for i, b := range c.Batch {
		names[i] = podShapes[b].name
	}
	nodes := nodeCfgs[c.Nodes].name
	if c.NodesInHeaviest {
		nodes += " (owned by the heaviest pool)"
	}
	return fmt.Sprintf("catalog=%s pools=%s nodes=%s ds=%s pref=%s minValues=%s workers=%d batch=[%s]", c.Catalog, poolCfgs[c.Pool].name, nodes, dsCfgs[c.DS].name, c.Pref, c.MinV, c.Workers, strings.Join(names, ","))
}

// SchedEnv is a built world plus the harness's own description of it for the oracles.
type SchedEnv struct {
	W        *world.World
	Case     SchedCase
	Catalog  []world.ITSpec
	Pools    []*v1.NodePool
	Nodes    []world.NodeSpec
	Bound    []*corev1.Pod
	Pending  []*corev1.Pod
	DS       []*appsv1.DaemonSet
	Volumes  map[string][]oracle.Volume // pod name -> volumes
	Hooks    *Hooks
	NoLaunch int // NodeClaims created whose request permits no launch at all
	// Between, if set, runs after Provisioner.Schedule decided and before the NodeClaims are created (the world may move
	// between the decision and the launch)
	Between func()
	// CreateReversed: the NodeClaims of a pass are created last-decided first
	CreateReversed bool
}

// multisets of size <= k over n shapes, in order of size then lexicographic
func batches(n, k int) [][]int {
	var out [][]int
	var rec func(start int, cur []int, size int)
	rec = func(start int, cur []int, size int) {
		if len(cur) == size {
			out = append(out, append([]int{}, cur...))
			return
		}
		for i := start; i < n; i++ {
			rec(i, append(cur, i), size)
		}
	}
	for size := 1; size <= k; size++ {
		rec(0, nil, size)
	}
	return out
}

func buildSched(c SchedCase) *SchedEnv {
	w := world.New(world.Options{PreferencePolicy: c.Pref, MinValuesPolicy: c.MinV, CPURequests: int64(max(c.Workers, 1)) * 1000, ReservedCapacity: c.Reserved})
	env := &SchedEnv{W: w, Case: c, Catalog: catalogs[c.Catalog], Volumes: map[string][]oracle.Volume{}}
	w.CP.Catalog[""] = world.BuildCatalog(env.Catalog)
	w.Add(world.NodeClass())
	env.Pools = poolCfgs[c.Pool].pools()
	for _, np := range env.Pools {
		w.Add(np)
	}
	nodePool := env.Pools[len(env.Pools)-1].Name
	if c.NodesInHeaviest {
		nodePool = env.Pools[0].Name
	}
	nodes, bound := nodeCfgs[c.Nodes].nodes(env.Catalog, nodePool)
	for i := range nodes {
		// existing managed nodes carry their pool's template taints/labels like real ones would, unless the config sets its own
		w.BuildNode(nodes[i])
	}
	env.Nodes = nodes
	env.Bound = bound
	for _, p := range bound {
		w.Add(p)
	}
	env.DS = dsCfgs[c.DS].ds()
	for _, d := range env.DS {
		w.Add(d)
		for _, nn := range nodeCfgs[c.Nodes].daemonsRunOn {
			dp := dsPod(d)
			dp.Name, dp.UID = d.Name+"-"+nn, types.UID("uid-"+d.Name+"-"+nn)
			dp.Labels = map[string]string{"ds": d.Name}
			world.Bound(nn)(dp)
			world.OwnedBy("DaemonSet", d.Name)(dp)
			var ns *world.NodeSpec
			for i := range nodes {
				if nodes[i].Name == nn {
					ns = &nodes[i]
				}
			}
			if ns == nil || (dp.Spec.NodeSelector[corev1.LabelTopologyZone] != "" && dp.Spec.NodeSelector[corev1.LabelTopologyZone] != ns.Offer.Zone) {
				continue
			}
			env.Bound = append(env.Bound, dp)
			w.Add(dp)
		}
	}
	needStorage := map[string]bool{}
	for i, b := range c.Batch {
		sh := podShapes[b]
		p := world.Pod(fmt.Sprintf("p%d", i), sh.cpu, sh.mods...)
		// later pods in the batch are slightly older so UID/creation order does not coincide with size order
		env.Pending = append(env.Pending, p)
		w.Add(p)
		if sh.storage != "" {
			needStorage[sh.storage] = true
		}
		switch sh.storage {
		case "pv-b":
			env.Volumes[p.Name] = []oracle.Volume{{Driver: "csi.x", ID: "default/claim-b", Zones: []string{"b"}}}
		case "sc-a":
			env.Volumes[p.Name] = []oracle.Volume{{Driver: "csi.x", ID: "default/claim-new", Zones: []string{"a"}}}
		}
	}
	if needStorage["pv-b"] {
		sc := "sc-any"
		w.Add(&storagev1.StorageClass{ObjectMeta: metav1.ObjectMeta{Name: sc}, Provisioner: "csi.x"},
			&corev1.PersistentVolume{ObjectMeta: metav1.ObjectMeta{Name: "pv-b"}, Spec: corev1.PersistentVolumeSpec{StorageClassName: sc,
				PersistentVolumeSource: corev1.PersistentVolumeSource{CSI: &corev1.CSIPersistentVolumeSource{Driver: "csi.x", VolumeHandle: "vol-b"}},
				NodeAffinity: &corev1.VolumeNodeAffinity{Required: &corev1.NodeSelector{NodeSelectorTerms: []corev1.NodeSelectorTerm{{MatchExpressions: []corev1.NodeSelectorRequirement{nsr(corev1.LabelTopologyZone, corev1.NodeSelectorOpIn, "b")}}}}}}},
			&corev1.PersistentVolumeClaim{ObjectMeta: metav1.ObjectMeta{Name: "claim-b", Namespace: "default", Annotations: map[string]string{"pv.kubernetes.io/bind-completed": "yes"}},
				Spec: corev1.PersistentVolumeClaimSpec{StorageClassName: &sc, VolumeName: "pv-b"}, Status: corev1.PersistentVolumeClaimStatus{Phase: corev1.ClaimBound}})
	}
	if needStorage["sc-a"] {
		sc := "sc-a"
		mode := storagev1.VolumeBindingWaitForFirstConsumer
		w.Add(&storagev1.StorageClass{ObjectMeta: metav1.ObjectMeta{Name: sc}, Provisioner: "csi.x", VolumeBindingMode: &mode,
			AllowedTopologies: []corev1.TopologySelectorTerm{{MatchLabelExpressions: []corev1.TopologySelectorLabelRequirement{{Key: corev1.LabelTopologyZone, Values: []string{"a"}}}}}},
			&corev1.PersistentVolumeClaim{ObjectMeta: metav1.ObjectMeta{Name: "claim-new", Namespace: "default"}, Spec: corev1.PersistentVolumeClaimSpec{StorageClassName: &sc}, Status: corev1.PersistentVolumeClaimStatus{Phase: corev1.ClaimPending}})
	}
	w.SyncCluster()
	return env
}

// schedOutcome is what one provisioning pass produced, in harness terms.
type schedOutcome struct {
	Results  scheduling.Results
	Created  []*v1.NodeClaim // API objects, aligned with Results.NewNodeClaims (nil where creation failed)
	Err      error
	Digest   string
}

// runPass runs the real Provisioner.Schedule followed by CreateNodeClaims on the calling goroutine, with the H1 hooks
// bound to this world. run==nil => real parallelizeUntil with real goroutines.
func (env *SchedEnv) runPass(run *explore.Run, workersOverride int) (out schedOutcome) {
	h := &Hooks{Run: run, Workers: workersOverride}
	env.Hooks = h
	curHooks = h
	defer func() { curHooks = nil }()
	w := env.W
	res, err := w.Prov.Schedule(w.Ctx)
	out.Results, out.Err = res, err
	if err != nil {
		return out
	}
	if env.Between != nil {
		env.Between()
	}
	// CreateNodeClaims fans out through client-go's ParallelizeUntil; create one by one to keep the order owned.
	out.Created = make([]*v1.NodeClaim, len(res.NewNodeClaims))
	for k := range res.NewNodeClaims {
		j := k
		if env.CreateReversed {
			j = len(res.NewNodeClaims) - 1 - k
		}
		names, cerr := w.Prov.CreateNodeClaims(w.Ctx, []*scheduling.NodeClaim{res.NewNodeClaims[j]})
		if cerr != nil || len(names) != 1 || names[0] == "" {
			continue
		}
		obj := &v1.NodeClaim{}
		if gerr := w.Raw.Get(w.Ctx, client.ObjectKey{Name: names[0]}, obj); gerr != nil {
			continue
		}
		out.Created[j] = obj
	}
	out.Digest = digestOutcome(out)
	return out
}

// digestOutcome canonicalises a pass for comparing outcomes across schedules / repetitions.
func digestOutcome(o schedOutcome) string {
	var parts []string
	for _, en := range o.Results.ExistingNodes {
		if len(en.Pods) == 0 {
			continue
		}
		parts = append(parts, "E:"+en.Name()+"="+podNames(en.Pods))
	}
	for i, nc := range o.Results.NewNodeClaims {
		its := make([]string, len(nc.InstanceTypeOptions))
		for j, it := range nc.InstanceTypeOptions {
			its[j] = it.Name
		}
		sort.Strings(its)
		s := "N:" + nc.NodePoolName + "=" + podNames(nc.Pods) + " types=" + strings.Join(its, ",")
		if i < len(o.Created) && o.Created[i] != nil {
			s += " reqs=" + reqsCanon(o.Created[i].Spec.Requirements)
		}
		parts = append(parts, s)
	}
	var errs []string
	for p := range o.Results.PodErrors {
		errs = append(errs, p.Name)
	}
	sort.Strings(errs)
	sort.Strings(parts)
	return strings.Join(parts, " | ") + " | errors=" + strings.Join(errs, ",")
}

func reqsCanon(rs []v1.NodeSelectorRequirementWithMinValues) string {
	var out []string
	for _, r := range rs {
		vs := append([]string{}, r.Values...)
		sort.Strings(vs)
		s := fmt.Sprintf("%s %s %v", r.Key, r.Operator, vs)
		if r.MinValues != nil {
			s += fmt.Sprintf(" min=%d", *r.MinValues)
		}
		out = append(out, s)
	}
	sort.Strings(out)
	return strings.Join(out, ";")
}

func podNames(ps []*corev1.Pod) string {
	n := make([]string, len(ps))
	for i, p := range ps {
		n[i] = p.Name
	}
	sort.Strings(n)
	return strings.Join(n, "+")
}

func metaT(t time.Time) metav1.Time { return metav1.Time{Time: t} }

func metaOwner(kind, name, uid string, ctrl *bool) metav1.OwnerReference {
	return metav1.OwnerReference{APIVersion: "karpenter.sh/v1", Kind: kind, Name: name, UID: types.UID(uid), BlockOwnerDeletion: ctrl}
}
