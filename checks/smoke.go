package checks

import (
	"fmt"
	"time"

	v1 "sigs.k8s.io/karpenter/pkg/apis/v1"

	"verif/world"
)

var K1 = []world.ITSpec{
	{Name: "s", CPU: 2, MemGi: 4, Pods: 8, Offers: []world.OfSpec{{Zone: "a", CT: "spot", Price: 0.6, Available: true}, {Zone: "b", CT: "spot", Price: 0.7, Available: true}, {Zone: "a", CT: "on-demand", Price: 1.0, Available: true}, {Zone: "b", CT: "on-demand", Price: 1.1, Available: true}}},
	{Name: "m", CPU: 4, MemGi: 8, Pods: 8, Offers: []world.OfSpec{{Zone: "a", CT: "spot", Price: 1.2, Available: true}, {Zone: "b", CT: "spot", Price: 1.3, Available: true}, {Zone: "a", CT: "on-demand", Price: 2.0, Available: true}, {Zone: "b", CT: "on-demand", Price: 2.1, Available: true}}},
	{Name: "l", CPU: 8, MemGi: 16, Pods: 8, Offers: []world.OfSpec{{Zone: "a", CT: "spot", Price: 2.4, Available: true}, {Zone: "b", CT: "spot", Price: 2.5, Available: true}, {Zone: "a", CT: "on-demand", Price: 4.0, Available: true}, {Zone: "b", CT: "on-demand", Price: 4.1, Available: true}}},
}

func Smoke() {
	t0 := time.Now()
	var n int
	for i := 0; i < 200; i++ {
		w := world.New(world.Options{})
		w.CP.Catalog[""] = world.BuildCatalog(K1)
		w.Add(world.NodeClass(), world.NodePool("default"))
		w.BuildNode(world.NodeSpec{Name: "n1", Pool: "default", Type: K1[0], Offer: K1[0].Offers[0]})
		w.Add(world.Pod("p1", 500), world.Pod("p2", 3000), world.Pod("p3", 1000, world.Bound("n1")))
		w.SyncCluster()
		res, err := w.Prov.Schedule(w.Ctx)
		if err != nil {
			panic(err)
		}
		n += len(res.NewNodeClaims)
		if i == 0 {
			for _, nc := range res.NewNodeClaims {
				fmt.Println("new:", nc.NodePoolName, len(nc.Pods), len(nc.InstanceTypeOptions), nc.Requirements)
			}
			for _, en := range res.ExistingNodes {
				fmt.Println("existing:", en.Name(), len(en.Pods))
			}
			fmt.Println("errors:", res.PodErrors)
			names, err := w.Prov.CreateNodeClaims(w.Ctx, res.NewNodeClaims)
			fmt.Println(names, err)
			for _, c := range w.Client.Log {
				fmt.Println("  ", c)
			}
			ncs := &v1.NodeClaimList{}
			w.Raw.List(w.Ctx, ncs)
			for _, nc := range ncs.Items {
				fmt.Println(nc.Name, nc.Spec.Requirements, nc.Spec.Resources.Requests)
			}
		}
	}
	fmt.Println("200 worlds in", time.Since(t0), n)
}

