package checks

import (
	"fmt"
	"strings"

	v1 "sigs.k8s.io/karpenter/pkg/apis/v1"

	"verif/internal/enum"
	"verif/internal/ev"
	"verif/world"
)

// C07 — disruption never targets protected or ineligible nodes: blocker matrix on node A of a two-node world in which A
// is otherwise disruptable by every method.

type c07Factor struct {
	name   string
	values []string // values[0] is the all-clear value
}

var c07Factors = []c07Factor{
	{"managed", []string{"managed", "unmanaged"}},
	{"stage", []string{"initialized", "registered"}},
	{"deleting", []string{"no", "nodeclaim-deleting", "marked-for-deletion"}},
	{"nominated", []string{"no", "window-open", "window-expired", "renominated-window-still-open"}},
	{"node-annotation", []string{"none", "do-not-disrupt"}},
	{"pod-protection", []string{"none", "dnd-true", "dnd-duration-active", "dnd-duration-expired", "dnd-without-start-time", "dnd-on-succeeded-pod", "dnd-on-terminating-pod", "pdb-blocked", "two-pdbs", "two-pdbs-both-allowing"}},
	{"consolidatable", []string{"true", "false", "absent"}},
	{"pool", []string{"WhenEmptyOrUnderutilized", "WhenEmpty", "consolidateAfter-Never", "static"}},
	{"tgp", []string{"none", "set"}},
}

type c07Case struct {
	v        []int // factor value indices
	contents string // "empty" | "one-pod"
	drifted  bool
}

func (c c07Case) val(name string) string {
	for i, f := range c07Factors {
		if f.name == name {
			return f.values[c.v[i]]
		}
	}
	return ""
}

func (c c07Case) String() string {
	var parts []string
	for i, f := range c07Factors {
		if c.v[i] != 0 {
			parts = append(parts, f.name+"="+f.values[c.v[i]])
		}
	}
	if len(parts) == 0 {
		parts = []string{"all-clear"}
	}
	return fmt.Sprintf("%s contents=%s drifted=%v", strings.Join(parts, " "), c.contents, c.drifted)
}

// c07Cases: every assignment with at most k factors away from all-clear.
func c07Cases(k int) []c07Case {
	var vecs [][]int
	var rec func(i, left int, cur []int)
	rec = func(i, left int, cur []int) {
		if i == len(c07Factors) {
			vecs = append(vecs, append([]int{}, cur...))
			return
		}
		rec(i+1, left, append(cur, 0))
		if left > 0 {
			for v := 1; v < len(c07Factors[i].values); v++ {
				rec(i+1, left-1, append(cur, v))
			}
		}
	}
	rec(0, k, nil)
	var out []c07Case
	for _, v := range vecs {
		for _, contents := range []string{"empty", "one-pod"} {
			for _, dr := range []bool{false, true} {
				out = append(out, c07Case{v: v, contents: contents, drifted: dr})
			}
		}
	}
	return out
}

func (c c07Case) world() dWorld {
	np := world.NodePool("default")
	switch c.val("pool") {
	case "WhenEmpty":
		np.Spec.Disruption.ConsolidationPolicy = v1.ConsolidationPolicyWhenEmpty
	case "consolidateAfter-Never":
		np.Spec.Disruption.ConsolidateAfter = nd("Never")
	case "static":
		r := int64(2)
		np.Spec.Replicas = &r
	}
	prot := c.val("pod-protection")
	pod := dPod{name: "p1", cpu: 500}
	if c.contents == "empty" {
		pod = dPod{name: "d1", cpu: 100, daemon: true}
	}
	switch prot {
	case "dnd-true":
		pod.dnd = "true"
	case "dnd-duration-active":
		pod.dnd = "3h"
	case "dnd-duration-expired":
		pod.dnd = "10m"
	case "dnd-without-start-time":
		pod.dnd = "nostart"
	case "dnd-on-succeeded-pod":
		pod.dnd, pod.phase = "true", "succeeded"
	case "dnd-on-terminating-pod":
		pod.dnd, pod.phase = "true", "terminating"
	case "pdb-blocked":
		pod.pdb = "blocked"
	case "two-pdbs":
		pod.pdb = "two"
	case "two-pdbs-both-allowing":
		pod.pdb = "two-allowing"
	}
	a := dNode{name: "a", pool: "default", typ: "l", zone: "a", ct: "on-demand", pods: []dPod{pod}, drifted: c.drifted,
		consolidatable: c.val("consolidatable"), nodeDND: c.val("node-annotation") == "do-not-disrupt", stage: c.val("stage"),
		deleting: c.val("deleting") == "nodeclaim-deleting", marked: c.val("deleting") == "marked-for-deletion", tgp: c.val("tgp") == "set",
		unmanaged: c.val("managed") == "unmanaged"}
	switch c.val("nominated") {
	case "window-open":
		a.nominated = "open"
	case "window-expired":
		a.nominated = "expired"
	case "renominated-window-still-open":
		a.nominated = "renominated"
	}
	b := dNode{name: "b", pool: "default", typ: "m", zone: "a", ct: "on-demand", pods: []dPod{{name: "p2", cpu: 500}}}
	return dWorld{catalog: K1, pools: []*v1.NodePool{np}, nodes: []dNode{a, b}}
}

// mustNotSelect: by the statement, method m must not select node A in this case.
func (c c07Case) mustNotSelect(m string) (bool, string) {
	var why []string
	add := func(cond bool, s string) {
		if cond {
			why = append(why, s)
		}
	}
	add(c.val("managed") == "unmanaged", "unmanaged")
	add(c.val("stage") != "initialized", "uninitialized")
	add(c.val("deleting") != "no", "deleting / marked for deletion")
	add(c.val("nominated") == "window-open" || c.val("nominated") == "renominated-window-still-open", "recently nominated")
	add(c.val("node-annotation") == "do-not-disrupt", "node do-not-disrupt")
	podBlocked := false
	switch c.val("pod-protection") {
	case "dnd-true", "dnd-duration-active", "dnd-without-start-time", "pdb-blocked", "two-pdbs", "two-pdbs-both-allowing":
		podBlocked = true // the eviction API refuses a pod matched by more than one PDB whatever they allow
	}
	static := c.val("pool") == "static"
	// a node whose only pod is terminal or terminating has nothing to reschedule: it is empty
	empty := c.contents == "empty" || c.val("pod-protection") == "dnd-on-succeeded-pod" || c.val("pod-protection") == "dnd-on-terminating-pod"
	switch m {
	case "Drift", "StaticDrift":
		add(podBlocked && c.val("tgp") != "set", "pod-level blocker without terminationGracePeriod")
		add(!c.drifted, "not drifted")
		add(m == "Drift" && static, "static pool is handled by StaticDrift")
		add(m == "StaticDrift" && !static, "dynamic pool")
	default:
		add(podBlocked, "pod-level blocker")
		add(c.val("consolidatable") != "true", "not Consolidatable")
		add(c.val("pool") == "consolidateAfter-Never", "consolidation disabled")
		add(static, "static pool")
		add(m != "Emptiness" && !empty && c.val("pool") == "WhenEmpty", "non-empty node under WhenEmpty")
		add(m == "Emptiness" && !empty, "node is not empty")
		add(m != "Emptiness" && empty, "empty nodes belong to Emptiness")
	}
	return len(why) > 0, strings.Join(why, ", ")
}

func init() {
	register("C07", "exploration", func(r *ev.Rec) {
		k := 3
		if r.Tier == "thorough" {
			k = 4
		}
		cases := c07Cases(k)
		names := make([]string, len(c07Factors))
		for i, f := range c07Factors {
			names[i] = fmt.Sprintf("%s%v", f.name, f.values)
		}
		r.Rule = fmt.Sprintf("two-node world in which node A is otherwise disruptable by every method (empty or repackable onto B, optionally drifted); blocker factors %v; every assignment with <=%d factors away from all-clear x contents {empty, one pod} x drifted {no, yes} is run through the real disruption controller once per method (%v, via WithMethods) and once with all methods. "+
			"Oracle: the statement's conjunction computed from the factor values; A must not be among the candidates of any command of a method that must not select it. non-trivial = distinct (case, method) in which A is either blocked or selected; all-clear selections are counted per method (non-vacuity)", names, k, allMethods)
		r.Assumptions = []string{"capacity-buffer placements are not modelled (feature gate off)", "duration-valued do-not-disrupt is relative to the pod start time (1h before the scenario epoch)"}
		runs := append([][]string{}, [][]string{allMethods}...)
		for _, m := range allMethods {
			runs = append(runs, []string{m})
		}
		enum.Run(r, enum.Size(len(cases), len(runs)), func(idx int64, l *ev.Local) {
			d := enum.Odo(idx, len(cases), len(runs))
			c := cases[d[0]]
			ms := runs[d[1]]
			env := buildDisrupt(c.world())
			cmds, err := env.round(ms...)
			l.Eval()
			if err != nil {
				l.Outcome("reconcile-error")
			}
			selectedBy := map[string]bool{}
			for _, cmd := range cmds {
				for _, cn := range cmdCandidates(cmd) {
					if cn == "a" {
						selectedBy[fmt.Sprintf("%T", cmd.Method)] = true
					}
				}
			}
			for full := range selectedBy {
				m := full[strings.LastIndex(full, ".")+1:]
				l.NontrivialH(ev.H(fmt.Sprintf("sel/%d/%s", d[0], m)))
				if blocked, why := c.mustNotSelect(m); blocked {
					l.Violation(fmt.Sprintf("%s selected a protected / ineligible node: %s", m, why), fmt.Sprintf("%s put node A into a command although it is %s  [%s; methods run %v; commands %v]", m, why, c.String(), ms, cmdStrings(cmds)), map[string]any{"case": c.String(), "methods": ms})
				} else {
					l.Outcome("selected-when-eligible:" + m)
				}
			}
			if len(ms) == 1 {
				if blocked, _ := c.mustNotSelect(ms[0]); blocked {
					l.NontrivialH(ev.H(fmt.Sprintf("blk/%d/%s", d[0], ms[0])))
					l.Outcome("blocked-and-not-selected:" + ms[0])
				} else if len(selectedBy) == 0 {
					l.Outcome("eligible-but-not-selected:" + ms[0])
				}
			}
			if idx%1777 == 3 {
				l.Sample(map[string]any{"case": c.String(), "methods": ms, "commands": cmdStrings(cmds)})
			}
		})
		c07Races(r)
	})
}

func cmdStrings(cmds []*disruptionCommand) []string {
	out := make([]string, len(cmds))
	for i, c := range cmds {
		out[i] = cmdString(c)
	}
	return out
}
