// Package checks holds one driver per property. Each driver enumerates its bounded space completely, compares the real
// Karpenter code with an independent oracle on every case and records what it covered.
package checks

import (
	"sigs.k8s.io/controller-runtime/pkg/client"

	"verif/internal/ev"
	"verif/internal/explore"
)

// noteDiverged records prefixes whose subtree could not be explored because replaying them met nondeterminism the
// harness does not own (Go map iteration order deciding the shape of a pass; DESIGN 2.6): an outcome, never a verdict.
func noteDiverged(l *ev.Local, ex *explore.Explorer, label string) {
	l.Mute = false
	for i := 0; i < ex.Diverged; i++ {
		l.Outcome(label + "-not-replayable (map-order nondeterminism)")
	}
}

type Check struct {
	ID    string
	Level string
	Run   func(r *ev.Rec)
	// Sharded: run as one single-threaded process per core (every enum.Run of the check is dealt over the shards)
	Sharded bool
}

var Registry = map[string]*Check{}

func register(id, level string, run func(r *ev.Rec)) {
	Registry[id] = &Check{ID: id, Level: level, Run: run, Sharded: true}
}

func must(err error) {
	if err != nil {
		panic(err)
	}
}

func clientKey(ns, name string) client.ObjectKey { return client.ObjectKey{Namespace: ns, Name: name} }
