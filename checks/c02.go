package checks

import (
	"os"
	"fmt"
	"sort"
	"strings"

	corev1 "k8s.io/api/core/v1"
	metav1 "k8s.io/apimachinery/pkg/apis/meta/v1"
	"k8s.io/apimachinery/pkg/labels"

	v1 "sigs.k8s.io/karpenter/pkg/apis/v1"
	"sigs.k8s.io/karpenter/pkg/operator/options"

	"verif/internal/enum"
	"verif/internal/ev"
	"verif/internal/explore"
	"verif/oracle"
	"verif/world"
)

// C02 — inter-pod constraints hold in the simulated end state (oracle over domain sets).

func lbl(kv ...string) func(*corev1.Pod) {
	return func(p *corev1.Pod) {
		if p.Labels == nil {
			p.Labels = map[string]string{}
		}
		for i := 0; i+1 < len(kv); i += 2 {
			p.Labels[kv[i]] = kv[i+1]
		}
	}
}

func selApp(v string) *metav1.LabelSelector {
	return &metav1.LabelSelector{MatchLabels: map[string]string{"app": v}}
}

func podAff(p *corev1.Pod) *corev1.Affinity {
	if p.Spec.Affinity == nil {
		p.Spec.Affinity = &corev1.Affinity{}
	}
	return p.Spec.Affinity
}

func antiAff(key, app string, nsAll bool) func(*corev1.Pod) {
	return func(p *corev1.Pod) {
		a := podAff(p)
		if a.PodAntiAffinity == nil {
			a.PodAntiAffinity = &corev1.PodAntiAffinity{}
		}
		t := corev1.PodAffinityTerm{TopologyKey: key, LabelSelector: selApp(app)}
		if nsAll {
			t.NamespaceSelector = &metav1.LabelSelector{}
		}
		a.PodAntiAffinity.RequiredDuringSchedulingIgnoredDuringExecution = append(a.PodAntiAffinity.RequiredDuringSchedulingIgnoredDuringExecution, t)
	}
}

func aff(key, app string) func(*corev1.Pod) {
	return func(p *corev1.Pod) {
		a := podAff(p)
		if a.PodAffinity == nil {
			a.PodAffinity = &corev1.PodAffinity{}
		}
		a.PodAffinity.RequiredDuringSchedulingIgnoredDuringExecution = append(a.PodAffinity.RequiredDuringSchedulingIgnoredDuringExecution, corev1.PodAffinityTerm{TopologyKey: key, LabelSelector: selApp(app)})
	}
}

func prefAff(key, app string) func(*corev1.Pod) {
	return func(p *corev1.Pod) {
		a := podAff(p)
		if a.PodAffinity == nil {
			a.PodAffinity = &corev1.PodAffinity{}
		}
		a.PodAffinity.PreferredDuringSchedulingIgnoredDuringExecution = append(a.PodAffinity.PreferredDuringSchedulingIgnoredDuringExecution, corev1.WeightedPodAffinityTerm{Weight: 10, PodAffinityTerm: corev1.PodAffinityTerm{TopologyKey: key, LabelSelector: selApp(app)}})
	}
}

func prefAnti(key, app string) func(*corev1.Pod) {
	return func(p *corev1.Pod) {
		a := podAff(p)
		if a.PodAntiAffinity == nil {
			a.PodAntiAffinity = &corev1.PodAntiAffinity{}
		}
		a.PodAntiAffinity.PreferredDuringSchedulingIgnoredDuringExecution = append(a.PodAntiAffinity.PreferredDuringSchedulingIgnoredDuringExecution, corev1.WeightedPodAffinityTerm{Weight: 10, PodAffinityTerm: corev1.PodAffinityTerm{TopologyKey: key, LabelSelector: selApp(app)}})
	}
}

func spread(key string, skew int32, when corev1.UnsatisfiableConstraintAction, app string, mods ...func(*corev1.TopologySpreadConstraint)) func(*corev1.Pod) {
	return func(p *corev1.Pod) {
		c := corev1.TopologySpreadConstraint{TopologyKey: key, MaxSkew: skew, WhenUnsatisfiable: when, LabelSelector: selApp(app)}
		for _, m := range mods {
			m(&c)
		}
		p.Spec.TopologySpreadConstraints = append(p.Spec.TopologySpreadConstraints, c)
	}
}

var c02Shapes = []podShape{
	{name: "plain-x", cpu: 500, mods: []func(*corev1.Pod){lbl("app", "x")}},
	{name: "plain-y", cpu: 500, mods: []func(*corev1.Pod){lbl("app", "y")}},
	{name: "x-anti-x-hostname", cpu: 500, mods: []func(*corev1.Pod){lbl("app", "x"), antiAff(corev1.LabelHostname, "x", false)}},
	{name: "x-anti-x-zone", cpu: 500, mods: []func(*corev1.Pod){lbl("app", "x"), antiAff(corev1.LabelTopologyZone, "x", false)}},
	{name: "x-anti-y-zone", cpu: 500, mods: []func(*corev1.Pod){lbl("app", "x"), antiAff(corev1.LabelTopologyZone, "y", false)}},
	{name: "y-anti-x-hostname", cpu: 500, mods: []func(*corev1.Pod){lbl("app", "y"), antiAff(corev1.LabelHostname, "x", false)}},
	// the same carrier, smaller (so it is dequeued AFTER the pod it repels) and with a preference nothing satisfies: it is
	// relaxed and re-evaluated after that pod was placed in the same pass
	{name: "y-anti-x-hostname+unsatisfiable-preference", cpu: 400, mods: []func(*corev1.Pod){lbl("app", "y"), antiAff(corev1.LabelHostname, "x", false), preferred(10, nsr(corev1.LabelTopologyZone, corev1.NodeSelectorOpIn, "nowhere"))}},
	{name: "x-anti-y-zone-all-namespaces", cpu: 500, mods: []func(*corev1.Pod){lbl("app", "x"), antiAff(corev1.LabelTopologyZone, "y", true)}},
	{name: "x-aff-x-zone", cpu: 500, mods: []func(*corev1.Pod){lbl("app", "x"), aff(corev1.LabelTopologyZone, "x")}},
	{name: "x-aff-y-hostname", cpu: 500, mods: []func(*corev1.Pod){lbl("app", "x"), aff(corev1.LabelHostname, "y")}},
	{name: "x-aff-y-zone", cpu: 500, mods: []func(*corev1.Pod){lbl("app", "x"), aff(corev1.LabelTopologyZone, "y")}},
	{name: "x-prefers-y-zone+anti-x-hostname(preferred)", cpu: 500, mods: []func(*corev1.Pod){lbl("app", "x"), prefAff(corev1.LabelTopologyZone, "y"), prefAnti(corev1.LabelHostname, "x")}},
	{name: "x-spread-zone-1", cpu: 500, mods: []func(*corev1.Pod){lbl("app", "x"), spread(corev1.LabelTopologyZone, 1, corev1.DoNotSchedule, "x")}},
	{name: "x-spread-hostname-1", cpu: 500, mods: []func(*corev1.Pod){lbl("app", "x"), spread(corev1.LabelHostname, 1, corev1.DoNotSchedule, "x")}},
	{name: "x-spread-zone-anyway", cpu: 500, mods: []func(*corev1.Pod){lbl("app", "x"), spread(corev1.LabelTopologyZone, 1, corev1.ScheduleAnyway, "x")}},
	{name: "x-spread-zone-1-minDomains-3", cpu: 500, mods: []func(*corev1.Pod){lbl("app", "x"), spread(corev1.LabelTopologyZone, 1, corev1.DoNotSchedule, "x", func(c *corev1.TopologySpreadConstraint) { n := int32(3); c.MinDomains = &n })}},
	{name: "x-spread-capacity-type-1", cpu: 500, mods: []func(*corev1.Pod){lbl("app", "x"), spread(v1.CapacityTypeLabelKey, 1, corev1.DoNotSchedule, "x")}},
	{name: "x-v1-spread-zone-matchLabelKeys", cpu: 500, mods: []func(*corev1.Pod){lbl("app", "x", "ver", "1"), spread(corev1.LabelTopologyZone, 1, corev1.DoNotSchedule, "x", func(c *corev1.TopologySpreadConstraint) { c.MatchLabelKeys = []string{"ver"} })}},
	{name: "x-spread-zone-2+zone-a-selector", cpu: 500, mods: []func(*corev1.Pod){lbl("app", "x"), sel(corev1.LabelTopologyZone, "a"), spread(corev1.LabelTopologyZone, 2, corev1.DoNotSchedule, "x")}},
}

type c02Existing struct {
	app, node, ns string
	anti string // existing pod itself carries required anti-affinity to this app on the zone key ("" = none)
}

type c02Case struct {
	layout   int // 0: n1(a) n2(b); 1: n1(a) n2(b) n3(a, small); 2: no nodes
	existing []c02Existing
	batch    []int
	pref     options.PreferencePolicy
	workers  int
	// podsFirst: the cluster cache is built in the order of a restarted controller (Pod events before their nodes are
	// known, retries still outstanding when the pass runs)
	podsFirst bool
}

func (c c02Case) String() string {
	var ex, b []string
	for _, e := range c.existing {
		s := fmt.Sprintf("%s@%s", e.app, e.node)
		if e.ns != "" && e.ns != "default" {
			s += "/ns=" + e.ns
		}
		if e.anti != "" {
			s += "(anti-" + e.anti + "-zone)"
		}
		ex = append(ex, s)
	}
	for _, i := range c.batch {
		b = append(b, c02Shapes[i].name)
	}
	if c.podsFirst {
		return fmt.Sprintf("layout=%d existing=[%s] batch=[%s] pref=%s workers=%d cache-built=pod-events-before-their-nodes", c.layout, strings.Join(ex, " "), strings.Join(b, ", "), c.pref, c.workers)
	}
	return fmt.Sprintf("layout=%d existing=[%s] batch=[%s] pref=%s workers=%d", c.layout, strings.Join(ex, " "), strings.Join(b, ", "), c.pref, c.workers)
}

type placedPod struct {
	pod  *corev1.Pod
	new  bool            // placed in this pass
	dom  map[string][]string // topology key -> possible domain values
	where string
}

func c02Build(c c02Case) (*SchedEnv, map[string]string) {
	w := world.New(world.Options{PreferencePolicy: c.pref, CPURequests: int64(max(c.workers, 1)) * 1000})
	env := &SchedEnv{W: w, Catalog: K1, Volumes: map[string][]oracle.Volume{}, Pools: []*v1.NodePool{world.NodePool("default")}}
	w.CP.Catalog[""] = world.BuildCatalog(K1)
	w.Add(world.NodeClass(), env.Pools[0])
	zones := map[string]string{}
	add := func(name, typ, zone string) {
		t := pickType(K1, typ)
		spec := world.NodeSpec{Name: name, Pool: "default", Type: t, Offer: pickOffer(t, zone)}
		w.BuildNode(spec)
		env.Nodes = append(env.Nodes, spec)
		zones[name] = zone
	}
	switch c.layout {
	case 0:
		add("n1", "m", "a")
		add("n2", "m", "b")
	case 1:
		add("n1", "m", "a")
		add("n2", "m", "b")
		add("n3", "s", "a")
	}
	for i, e := range c.existing {
		if _, ok := zones[e.node]; !ok {
			continue
		}
		p := world.Pod(fmt.Sprintf("e%d", i), 300, world.Bound(e.node), lbl("app", e.app))
		if e.ns != "" {
			p.Namespace = e.ns
		}
		if e.anti != "" {
			antiAff(corev1.LabelTopologyZone, e.anti, false)(p)
		}
		env.Bound = append(env.Bound, p)
		w.Add(p)
	}
	for i, b := range c.batch {
		sh := c02Shapes[b]
		p := world.Pod(fmt.Sprintf("p%d", i), sh.cpu, sh.mods...)
		env.Pending = append(env.Pending, p)
		w.Add(p)
	}
	w.Add(&corev1.Namespace{ObjectMeta: metav1.ObjectMeta{Name: "default"}}, &corev1.Namespace{ObjectMeta: metav1.ObjectMeta{Name: "other"}})
	w.PodsFirst = c.podsFirst
	w.SyncCluster()
	w.PodsFirst = false
	return env, zones
}

func matchesTerm(q *corev1.Pod, owner *corev1.Pod, t corev1.PodAffinityTerm) bool {
	if t.LabelSelector == nil {
		return false
	}
	s, err := metav1.LabelSelectorAsSelector(t.LabelSelector)
	if err != nil || !s.Matches(labels.Set(q.Labels)) {
		return false
	}
	if t.NamespaceSelector != nil {
		return true // the shapes only use the empty (all-namespaces) selector
	}
	if len(t.Namespaces) > 0 {
		for _, n := range t.Namespaces {
			if n == q.Namespace {
				return true
			}
		}
		return false
	}
	return q.Namespace == owner.Namespace
}

func intersects(a, b []string) bool {
	for _, x := range a {
		for _, y := range b {
			if x == y {
				return true
			}
		}
	}
	return false
}

func c02Judge(env *SchedEnv, zones map[string]string, out schedOutcome) (viol []c01Violation, placedNew int) {
	var all []*placedPod
	nodeCT := map[string]string{}
	for _, ns := range env.Nodes {
		nodeCT[ns.Name] = ns.Offer.CT
	}
	for _, b := range env.Bound {
		all = append(all, &placedPod{pod: b, where: b.Spec.NodeName, dom: map[string][]string{corev1.LabelHostname: {b.Spec.NodeName}, corev1.LabelTopologyZone: {zones[b.Spec.NodeName]}, v1.CapacityTypeLabelKey: {nodeCT[b.Spec.NodeName]}}})
	}
	for _, en := range out.Results.ExistingNodes {
		for _, p := range en.Pods {
			if o := env.original(p.Name); o != nil {
				all = append(all, &placedPod{pod: o, new: true, where: en.Name(), dom: map[string][]string{corev1.LabelHostname: {en.Name()}, corev1.LabelTopologyZone: {zones[en.Name()]}, v1.CapacityTypeLabelKey: {nodeCT[en.Name()]}}})
				placedNew++
			}
		}
	}
	for j, snc := range out.Results.NewNodeClaims {
		if j >= len(out.Created) || out.Created[j] == nil {
			continue
		}
		nc := out.Created[j]
		zs, cts := map[string]bool{}, map[string]bool{}
		for _, l := range env.launchesFor(nc) {
			zs[l.O.Zone] = true
			cts[l.O.CT] = true
		}
		for _, p := range snc.Pods {
			if o := env.original(p.Name); o != nil {
				all = append(all, &placedPod{pod: o, new: true, where: "new:" + nc.Name, dom: map[string][]string{corev1.LabelHostname: {"new:" + nc.Name}, corev1.LabelTopologyZone: keysOf(zs), v1.CapacityTypeLabelKey: keysOf(cts)}})
				placedNew++
			}
		}
	}
	// ---- required anti-affinity, either direction, existing pods included
	for _, p := range all {
		if p.pod.Spec.Affinity == nil || p.pod.Spec.Affinity.PodAntiAffinity == nil {
			continue
		}
		for _, t := range p.pod.Spec.Affinity.PodAntiAffinity.RequiredDuringSchedulingIgnoredDuringExecution {
			for _, q := range all {
				if q == p || (!p.new && !q.new) || !matchesTerm(q.pod, p.pod, t) {
					continue
				}
				if intersects(p.dom[t.TopologyKey], q.dom[t.TopologyKey]) {
					dir := "new pod violates its own term"
					if !p.new {
						dir = "new pod violates the term of a running pod"
					}
					viol = append(viol, c01Violation{"required anti-affinity violated on " + keyShort(t.TopologyKey) + ": " + dir,
						fmt.Sprintf("pod %s (on %s, %s in %v) has required anti-affinity to app=%s but pod %s is on %s (%s in %v)", p.pod.Name, p.where, keyShort(t.TopologyKey), p.dom[t.TopologyKey], t.LabelSelector.MatchLabels["app"], q.pod.Name, q.where, keyShort(t.TopologyKey), q.dom[t.TopologyKey])})
				}
			}
		}
	}
	// ---- commit order (hook H1): existing pods first, then the pods of this pass in the order they were committed
	byName := map[string]*placedPod{}
	for _, p := range all {
		byName[p.pod.Name] = p
	}
	var order []*placedPod
	for _, p := range all {
		if !p.new {
			order = append(order, p)
		}
	}
	seenCommit := map[string]bool{}
	for _, pl := range env.Hooks.Placed {
		if p := byName[pl.Pod]; p != nil && p.new && !seenCommit[pl.Pod] {
			seenCommit[pl.Pod] = true
			order = append(order, p)
		}
	}
	// ---- required affinity, judged at the pod's commit point: a match must be possible in every domain the pod can end
	// in, unless no match existed anywhere yet and the pod matches its own term (it starts the domain)
	for i, p := range order {
		if !p.new || p.pod.Spec.Affinity == nil || p.pod.Spec.Affinity.PodAffinity == nil {
			continue
		}
		for _, t := range p.pod.Spec.Affinity.PodAffinity.RequiredDuringSchedulingIgnoredDuringExecution {
			selfMatch := matchesTerm(p.pod, p.pod, t)
			var matches []*placedPod
			for _, q := range order[:i] {
				if matchesTerm(q.pod, p.pod, t) {
					matches = append(matches, q)
				}
			}
			if len(matches) == 0 {
				if selfMatch {
					continue // starts a domain of its own
				}
				// pods committed later on the very same node / NodeClaim can still satisfy it (batch-mates); judged below on the final state
				for _, q := range all {
					if q != p && matchesTerm(q.pod, p.pod, t) {
						matches = append(matches, q)
					}
				}
			}
			for _, d := range p.dom[t.TopologyKey] {
				ok := false
				for _, q := range matches {
					if intersects([]string{d}, q.dom[t.TopologyKey]) {
						ok = true
					}
				}
				if !ok {
					viol = append(viol, c01Violation{"required affinity violated on " + keyShort(t.TopologyKey),
						fmt.Sprintf("pod %s (on %s) requires affinity to app=%s on %s but may end up in %s=%s where no matching pod is or can be", p.pod.Name, p.where, t.LabelSelector.MatchLabels["app"], keyShort(t.TopologyKey), keyShort(t.TopologyKey), d)})
				}
			}
		}
	}
	// ---- DoNotSchedule spread, judged at each carrier's commit point as kube-scheduler does: count[d] + self - min <= maxSkew
	for i, p := range order {
		if !p.new {
			continue
		}
		for _, c := range p.pod.Spec.TopologySpreadConstraints {
			if c.WhenUnsatisfiable != corev1.DoNotSchedule || c.LabelSelector == nil {
				continue
			}
			selr := c.LabelSelector.DeepCopy()
			for _, k := range c.MatchLabelKeys {
				if v, ok := p.pod.Labels[k]; ok {
					if selr.MatchLabels == nil {
						selr.MatchLabels = map[string]string{}
					}
					selr.MatchLabels[k] = v
				}
			}
			s, _ := metav1.LabelSelectorAsSelector(selr)
			zsel, confined := p.pod.Spec.NodeSelector[corev1.LabelTopologyZone]
			// counts before the commit: certain = pods certainly in the domain, possible = pods possibly in it
			certain, possible := map[string]int{}, map[string]int{}
			for _, q := range order[:i] {
				if q.pod.Namespace != p.pod.Namespace || !s.Matches(labels.Set(q.pod.Labels)) {
					continue
				}
				if confined && !intersects(q.dom[corev1.LabelTopologyZone], []string{zsel}) {
					continue // nodeAffinityPolicy Honor: nodes outside the carrier's own node selection do not count
				}
				ds := q.dom[c.TopologyKey]
				for _, d := range ds {
					possible[d]++
				}
				if len(ds) == 1 {
					certain[ds[0]]++
				}
			}
			// eligible domains under the two readings
			dom1, dom2 := map[string]bool{}, map[string]bool{}
			for name, z := range zones {
				if confined && z != zsel {
					continue
				}
				switch c.TopologyKey {
				case corev1.LabelTopologyZone:
					dom1[z] = true
				case corev1.LabelHostname:
					dom1[name] = true
				case v1.CapacityTypeLabelKey:
					dom1[nodeCT[name]] = true
				}
			}
			for _, q := range order[:i+1] {
				if q.new {
					if confined && !intersects(q.dom[corev1.LabelTopologyZone], []string{zsel}) {
						continue // a node outside the carrier's own node selection is not an eligible domain (Honor)
					}
					for _, d := range q.dom[c.TopologyKey] {
						if c.TopologyKey == corev1.LabelTopologyZone && confined && d != zsel {
							continue
						}
						dom1[d] = true
					}
				}
			}
			for d := range dom1 {
				dom2[d] = true
			}
			switch c.TopologyKey {
			case corev1.LabelTopologyZone:
				for _, z := range []string{"a", "b"} {
					if !confined || z == zsel {
						dom2[z] = true
					}
				}
			case v1.CapacityTypeLabelKey:
				dom2["spot"], dom2["on-demand"] = true, true
			case corev1.LabelHostname:
				dom2["(a node the pool could still create)"] = true
			}
			self := 0
			if s.Matches(labels.Set(p.pod.Labels)) {
				self = 1
			}
			for _, d := range p.dom[c.TopologyKey] {
				ok := false
				for _, doms := range []map[string]bool{dom1, dom2} {
					mn := 1 << 30
					for dd := range doms {
						if possible[dd] < mn {
							mn = possible[dd]
						}
					}
					if c.MinDomains != nil && int32(len(doms)) < *c.MinDomains {
						mn = 0
					}
					if certain[d]+self-mn <= int(c.MaxSkew) {
						ok = true
					}
				}
				if !ok {
					// classify: does the excess consist of matching pods that sit on the SAME new NodeClaim and were committed
					// before this pod, i.e. while that NodeClaim's domain was still undetermined?
					sameClaim := 0
					if strings.HasPrefix(p.where, "new:") {
						for _, q := range order[:i] {
							if q.new && q.where == p.where && q.pod.Namespace == p.pod.Namespace && s.Matches(labels.Set(q.pod.Labels)) {
								sameClaim++
							}
						}
					}
					cls := ""
					if sameClaim > 0 && certain[d]-sameClaim+self <= int(c.MaxSkew) {
						cls = ": earlier matching pods on the same new NodeClaim were committed while its domain was undetermined and are not counted"
					}
					viol = append(viol, c01Violation{"maxSkew of a DoNotSchedule spread constraint exceeded on " + keyShort(c.TopologyKey) + cls,
						fmt.Sprintf("pod %s committed to %s (%s=%s) where %d matching pods already are; matching pods per domain before the commit %v; constraint {maxSkew=%d selector=%s minDomains=%d} is exceeded under both readings of the eligible domains", p.pod.Name, p.where, keyShort(c.TopologyKey), d, certain[d], possible, c.MaxSkew, s.String(), ptrInt32(c.MinDomains))})
				}
			}
		}
	}
	return viol, placedNew
}

func ptrInt32(p *int32) int32 {
	if p == nil {
		return 0
	}
	return *p
}

func keyShort(k string) string {
	switch k {
	case corev1.LabelHostname:
		return "hostname"
	case corev1.LabelTopologyZone:
		return "zone"
	case v1.CapacityTypeLabelKey:
		return "capacity-type"
	}
	return k
}

func init() {
	register("C02", "exploration", func(r *ev.Rec) {
		bsz := 2
		workers := []int{1, 2}
		bound := 1
		if r.Tier == "thorough" {
			bsz, workers, bound = 3, []int{1, 2, 3}, 2
		}
		// existing pod distributions: multisets of <=2 from the menu
		menu := []c02Existing{{"x", "n1", "", ""}, {"x", "n2", "", ""}, {"y", "n1", "", ""}, {"y", "n2", "", ""}, {"y", "n2", "other", ""}, {"y", "n1", "", "x"}, {"y", "n2", "", "x"}}
		var exs [][]c02Existing
		exs = append(exs, nil)
		for i := range menu {
			exs = append(exs, []c02Existing{menu[i]})
			for j := i; j < len(menu); j++ {
				exs = append(exs, []c02Existing{menu[i], menu[j]})
			}
		}
		bl := batches(len(c02Shapes), bsz)
		layouts := []int{0, 1, 2}
		prefs := []options.PreferencePolicy{options.PreferencePolicyRespect, options.PreferencePolicyIgnore}
		r.Rule = fmt.Sprintf("node layouts {2 nodes in 2 zones, +1 small node, none} x existing pod distributions (multisets of <=2 of %d kinds: app x/y per node, another namespace, a running pod carrying anti-affinity) x all batches of <=%d pods from %d inter-pod shapes (required/preferred anti-affinity and affinity on hostname/zone, self- and cross-selecting, all-namespaces selector; DoNotSchedule / ScheduleAnyway spread on zone/hostname/capacity-type with maxSkew 1-2, minDomains, matchLabelKeys, zone-confined) x both preference policies x workers %v with <=%d completion-order deviations (<=1 with three workers), through the real Provisioner.Schedule + CreateNodeClaims; plus, for every world with a running pod and every batch of <=%d pods, the same pass with the cluster cache built in the event order of a restarted controller (Pod events reconciled before their nodes are known, retries still outstanding). "+
			"Oracle over domain sets (a real node -> its label; a new NodeClaim -> itself for hostname and, for zone / capacity-type, every value some permitted launch of the created NodeClaim can have): required anti-affinity in either direction incl. running pods (violation iff domain sets intersect); required affinity (every domain the pod can end in must be able to hold a match; self-matching groups must not split); DoNotSchedule skew in every domain that received a carrier pod (flagged only if exceeded under every assignment of undetermined pods and both readings of the eligible domains). non-trivial = distinct (case, outcome) with a placed pod that carries or is selected by a constraint", len(menu), bsz, len(c02Shapes), workers, bound, bsz-1)
		r.Assumptions = []string{"node inclusion policies at their defaults", "the affinity bootstrap clause is judged leniently (a self-matching pod with no other match anywhere may start a domain)", "Go map iteration order (random domain choice) is sampled, not enumerated"}
		n := enum.Size(len(bl), len(exs), len(layouts), len(prefs))
		// the same worlds after a controller restart: wherever a running pod is involved, the cache is also built with the Pod
		// events first (one worker, no completion-order deviations)
		var exsRunning [][]c02Existing
		for _, e := range exs {
			if len(e) > 0 {
				exsRunning = append(exsRunning, e)
			}
		}
		onlyFaults := os.Getenv("C02_ONLY_FAULTS") != "" // debug: the read-fault part alone
		runCase := func(idx int64, l *ev.Local, c c02Case, wk, bound int) {
			if onlyFaults {
				return
			}
			{
				b := bound
				if wk >= 3 && b > 1 {
					b = 1 // three workers: one completion-order deviation (keeps the thorough tier within its deadline)
				}
				ex := &explore.Explorer{Bound: b, MaxExecs: 200}
				ex.Exec = func(run *explore.Run) {
					env, zones := c02Build(c)
					out := env.runPass(run, wk)
					l.Eval()
					l.Traces++
					if out.Err != nil {
						l.Outcome("schedule-error")
						return
					}
					viol, placed := c02Judge(env, zones, out)
					if placed > 0 {
						l.NontrivialH(ev.H(fmt.Sprintf("%d/%d/%s", idx, wk, out.Digest)))
					}
					l.Outcome(fmt.Sprintf("placed=%d errors=%v", placed, len(out.Results.PodErrors) > 0))
					seen := map[string]bool{}
					for _, v := range viol {
						if seen[v.Sig] {
							continue
						}
						seen[v.Sig] = true
						l.Violation(v.Sig, v.Msg+"  ["+c.String()+fmt.Sprintf(" commit-order=%v]", env.Hooks.Placed), map[string]any{"case": c.String(), "choices": run.Choices(), "outcome": out.Digest})
					}
					if idx%4001 == 9 && placed > 1 {
						l.Sample(map[string]any{"case": c.String(), "outcome": out.Digest, "commit_order": env.Hooks.Placed})
					}
				}
				ex.Explore()
				noteDiverged(l, ex, "case")
				l.Transitions += int64(ex.Points)
			}
		}
		// the small parts run FIRST so that the deadline of the thorough tier never starves them
		bl1 := batches(len(c02Shapes), bsz-1)
		n2 := enum.Size(len(bl1), len(exsRunning), 2, len(prefs))
		enum.Run(r, n2, func(idx int64, l *ev.Local) {
			d := enum.Odo(idx, len(bl1), len(exsRunning), 2, len(prefs))
			runCase(n+idx, l, c02Case{layout: layouts[d[2]], existing: exsRunning[d[1]], batch: bl1[d[0]], pref: prefs[d[3]], workers: 1, podsFirst: true}, 1, 0)
		})
		r.Extra["restart_order_cases"] = n2
		// ... and while any one API READ of the pass fails once (the topology counts, the namespaces, the pods of a domain
		// are all looked up during the pass): a pass may place less, what it commits is judged by the same oracle
		// batches of <=2 pods: a pod that cannot be placed is only tried again while another pod of the batch makes
		// progress. quick: the two-node layout and the Ignore policy; thorough: both layouts with nodes, both policies
		bl2 := batches(len(c02Shapes), 2)
		rfLayouts, rfPrefs := 1, []options.PreferencePolicy{options.PreferencePolicyIgnore}
		if r.Tier == "thorough" {
			rfLayouts, rfPrefs = 2, prefs
		}
		n3 := enum.Size(len(bl2), len(exsRunning), rfLayouts, len(rfPrefs))
		enum.Run(r, n3, func(idx int64, l *ev.Local) {
			d := enum.Odo(idx, len(bl2), len(exsRunning), rfLayouts, len(rfPrefs))
			c := c02Case{layout: layouts[d[2]], existing: exsRunning[d[1]], batch: bl2[d[0]], pref: rfPrefs[d[3]], workers: 1}
			ex := &explore.Explorer{Bound: 1, MaxExecs: 2000}
			ex.Exec = func(run *explore.Run) {
				env, zones := c02Build(c)
				taken := env.W.AttachFaultsOpt(run, func(cl *world.Call) bool { return cl.Verb == "get" || cl.Verb == "list" }, false)
				// reads fail while the pass DECIDES; the NodeClaims it decided on are then created fault-free (the oracle needs
				// the created objects to know where a new NodeClaim can end up — a creation that fails is not a placement)
				env.Between = func() { env.W.Client.Hook, env.W.CP.Hook = nil, nil }
				out := env.runPass(explore.Replay(nil), 1)
				env.W.Client.Hook, env.W.CP.Hook = nil, nil
				l.Eval()
				l.Traces++
				if out.Err != nil {
					l.Outcome("read-fault: schedule-error")
					return
				}
				var faults []string
				for _, f := range *taken {
					faults = append(faults, f.Call+"="+f.Fault)
				}
				viol, placed := c02Judge(env, zones, out)
				if placed > 0 && len(faults) > 0 {
					l.NontrivialH(ev.H(fmt.Sprintf("rf/%d/%v/%s", idx, faults, out.Digest)))
				}
				l.Outcome(fmt.Sprintf("read-fault: placed=%v", placed > 0))
				seen := map[string]bool{}
				for _, v := range viol {
					if seen[v.Sig] {
						continue
					}
					seen[v.Sig] = true
					l.Violation(v.Sig+" (while a read failed)", v.Msg+"  ["+c.String()+fmt.Sprintf(" failing reads %v]", faults), map[string]any{"case": c.String(), "faults": faults, "plan": run.Plan(), "outcome": out.Digest})
				}
			}
			ex.Explore()
			noteDiverged(l, ex, "read-fault")
			l.Transitions += int64(ex.Points)
		})
		r.Extra["read_fault_cases"] = n3
		enum.Run(r, n, func(idx int64, l *ev.Local) {
			d := enum.Odo(idx, len(bl), len(exs), len(layouts), len(prefs))
			for _, wk := range workers {
				runCase(idx, l, c02Case{layout: layouts[d[2]], existing: exs[d[1]], batch: bl[d[0]], pref: prefs[d[3]], workers: wk}, wk, bound)
			}
		})
	})
}

var _ = sort.Strings
