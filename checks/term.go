package checks

import (
	"fmt"
	"sort"
	"strings"
	"time"

	corev1 "k8s.io/api/core/v1"
	policyv1 "k8s.io/api/policy/v1"
	storagev1 "k8s.io/api/storage/v1"
	metav1 "k8s.io/apimachinery/pkg/apis/meta/v1"
	"k8s.io/apimachinery/pkg/types"
	"k8s.io/apimachinery/pkg/util/intstr"
	"sigs.k8s.io/controller-runtime/pkg/client"

	v1 "sigs.k8s.io/karpenter/pkg/apis/v1"
	"sigs.k8s.io/karpenter/pkg/controllers/node/termination"
	"sigs.k8s.io/karpenter/pkg/controllers/node/termination/terminator"
	"sigs.k8s.io/karpenter/pkg/controllers/nodeclaim/lifecycle"
	"sigs.k8s.io/karpenter/pkg/state/nodepoolhealth"

	"verif/internal/explore"
	"verif/world"
)

// Shared driver for C09 (finalization order) and C10 (drain rules): one terminating node, the real node-termination
// controller, the real NodeClaim lifecycle controller (finalize path) and the real eviction queue, interleaved with
// environment events, at reconcile granularity, under the deviation-bounded explorer.

type termPod struct {
	name       string
	critical   bool
	daemon     bool
	dnd        string // "", "true", "10m" (duration since start; start = Epoch-1h => expired), "3h" (active)
	static     bool
	tolerates  bool
	grace      *int64
	terminating bool // already terminating at the start (deleted 10s ago with its grace)
	pdb        string // "", "blocked", "two"
	pvc        string // claim name mounted (for volume attachments)
	succeeded  bool
}

func (p termPod) tier() int {
	t := 0
	if p.daemon {
		t = 1
	}
	if p.critical {
		t += 2
	}
	return t
}

type termScenario struct {
	name       string
	tgp        *time.Duration
	pods       []termPod
	attachment string // "", "drainable" (PV of a drainable pod), "undrainable" (PV of a pod that tolerates the taint)
	unregistered bool
	notReady   bool
	slowDetach bool // the attach-detach controller is slow: detaching is not part of the default history
	slowPods   bool // pods use their whole grace period: a deleted pod disappears no earlier than its deletionTimestamp
	first      string // "nodeclaim" | "node": which object the user / disruption deletes first
	// replaced: this pod may be re-created by its owner under the SAME name (new UID) on another node while the drain is
	// under way (a StatefulSet pod); the new pod has an active do-not-disrupt annotation and is none of the drain's business
	replaced string
}

func i64(v int64) *int64              { return &v }
func dur(d time.Duration) *time.Duration { return &d }

type termRun struct {
	w      *world.World
	sc     termScenario
	nc     *v1.NodeClaim
	node   *corev1.Node
	pods   map[string]*corev1.Pod // originals by name
	spec   map[string]termPod
	queue  *terminator.Queue
	term   *termination.Controller
	life   *lifecycle.Controller
	history []string
	viol   []c01Violation
	// interleave: environment events may also happen in the middle of a reconcile (before any of its calls)
	interleave bool
	// C10 bookkeeping
	deadline *time.Time // node termination time, once annotated
	evicted  map[string]bool
}

func buildTerm(sc termScenario) *termRun {
	w := world.New(world.Options{})
	w.Client.GracefulPods = true
	w.CP.Catalog[""] = world.BuildCatalog(K1)
	w.Add(world.NodeClass(), world.NodePool("default"))
	stage := "initialized"
	if sc.unregistered {
		stage = "unregistered"
	}
	nc, node := w.BuildNode(world.NodeSpec{Name: "n1", Pool: "default", Type: K1[2], Offer: K1[2].Offers[0], Stage: stage, TGP: sc.tgp, NotReady: sc.notReady})
	t := &termRun{w: w, sc: sc, nc: nc, node: node, pods: map[string]*corev1.Pod{}, spec: map[string]termPod{}, evicted: map[string]bool{}}
	for _, ps := range sc.pods {
		mods := []func(*corev1.Pod){world.Bound("n1")}
		p := world.Pod(ps.name, 100, mods...)
		p.Labels = map[string]string{"app": ps.name}
		if ps.critical {
			p.Spec.PriorityClassName = "system-cluster-critical"
		}
		if ps.daemon {
			world.OwnedBy("DaemonSet", "ds")(p)
		} else if ps.static {
			world.OwnedBy("Node", "n1")(p)
		} else {
			world.OwnedBy("ReplicaSet", "rs")(p)
		}
		if ps.dnd != "" {
			p.Annotations = map[string]string{v1.DoNotDisruptAnnotationKey: ps.dnd}
		}
		if ps.tolerates {
			p.Spec.Tolerations = append(p.Spec.Tolerations, corev1.Toleration{Key: v1.DisruptedTaintKey, Operator: corev1.TolerationOpExists})
		}
		p.Spec.TerminationGracePeriodSeconds = ps.grace
		if ps.succeeded {
			p.Status.Phase = corev1.PodSucceeded
		}
		if ps.pvc != "" {
			pvcVol(ps.pvc)(p)
		}
		if ps.terminating {
			g := int64(30)
			if ps.grace != nil {
				g = *ps.grace
			}
			dt := metaT(world.Epoch.Add(-10 * time.Second).Add(time.Duration(g) * time.Second))
			p.DeletionTimestamp = &dt
			p.DeletionGracePeriodSeconds = &g
			p.Finalizers = []string{"verif.io/terminating"} // lets the fake keep a terminating pod
		}
		w.Add(p)
		t.pods[ps.name] = p
		t.spec[ps.name] = ps
		switch ps.pdb {
		case "blocked", "two":
			n := 1
			if ps.pdb == "two" {
				n = 2
			}
			for k := 0; k < n; k++ {
				mu := intstr.FromInt32(0)
				w.Add(&policyv1.PodDisruptionBudget{ObjectMeta: metav1.ObjectMeta{Name: fmt.Sprintf("pdb-%s-%d", ps.name, k), Namespace: "default"},
					Spec:   policyv1.PodDisruptionBudgetSpec{Selector: &metav1.LabelSelector{MatchLabels: map[string]string{"app": ps.name}}, MaxUnavailable: &mu},
					Status: policyv1.PodDisruptionBudgetStatus{DisruptionsAllowed: 0}})
			}
		}
		if ps.pvc != "" {
			pvName := "pv-" + ps.pvc
			sc := "sc"
			w.Add(&corev1.PersistentVolume{ObjectMeta: metav1.ObjectMeta{Name: pvName}},
				&corev1.PersistentVolumeClaim{ObjectMeta: metav1.ObjectMeta{Name: ps.pvc, Namespace: "default"}, Spec: corev1.PersistentVolumeClaimSpec{VolumeName: pvName, StorageClassName: &sc}},
				&storagev1.VolumeAttachment{ObjectMeta: metav1.ObjectMeta{Name: "va-" + ps.pvc}, Spec: storagev1.VolumeAttachmentSpec{NodeName: "n1", Attacher: "csi.x", Source: storagev1.VolumeAttachmentSource{PersistentVolumeName: &pvName}}})
		}
	}
	w.Client.Log = nil
	t.newControllers()
	return t
}

func (t *termRun) newControllers() {
	w := t.w
	t.queue = terminator.NewQueue(w.Clock, w.Client, w.Rec)
	t.term = termination.NewController(w.Clock, w.Client, w.CP, terminator.NewTerminator(w.Clock, w.Client, t.queue, w.Rec), w.Rec)
	t.life = lifecycle.NewController(w.Clock, w.Client, w.CP, w.Rec, nodepoolhealth.NewState(), nil)
}

func (t *termRun) livePod(name string) *corev1.Pod {
	p := &corev1.Pod{}
	if err := t.w.Raw.Get(t.w.Ctx, client.ObjectKey{Namespace: "default", Name: name}, p); err != nil {
		return nil
	}
	return p
}

type action struct {
	name string
	do   func()
}

// enabled returns the actions possible in the current state; scripted is the index of the action the fair default
// script would take next (cycle position pos).
func (t *termRun) actions() []action {
	w := t.w
	var out []action
	if n := w.GetNode("n1"); n != nil {
		out = append(out, action{"node-termination", func() { _, _ = t.term.Reconcile(w.Ctx, n) }})
	}
	if c := w.GetNodeClaim(t.nc.Name); c != nil {
		out = append(out, action{"nodeclaim-lifecycle", func() { _, _ = t.life.Reconcile(w.Ctx, c) }})
	}
	names := make([]string, 0, len(t.pods))
	for n := range t.pods {
		names = append(names, n)
	}
	sort.Strings(names)
	for _, n := range names {
		orig := t.pods[n]
		if !t.queue.Has(orig) {
			continue
		}
		n := n
		out = append(out, action{"eviction-queue:" + n, func() {
			if p := t.livePod(n); p != nil && p.UID == orig.UID {
				_, _ = t.queue.Reconcile(w.Ctx, p)
			} else {
				_, _ = t.queue.Reconcile(w.Ctx, orig) // the controller reconciles the enqueued key; object gone or replaced => the stale copy of a lagging cache
			}
		}})
	}
	return out
}

func (t *termRun) envEvents() []action {
	w := t.w
	var out []action
	names := make([]string, 0, len(t.pods))
	for n := range t.pods {
		names = append(names, n)
	}
	sort.Strings(names)
	for _, n := range names {
		n := n
		if p := t.livePod(n); p != nil && p.DeletionTimestamp != nil && !t.spec[n].terminating {
			if t.sc.slowPods && w.Clock.Now().Before(p.DeletionTimestamp.Time) {
				continue
			}
			out = append(out, action{"pod-finished:" + n, func() {
				w.EnvDelete(p)
			}})
		}
	}
	vas := &storagev1.VolumeAttachmentList{}
	_ = w.Raw.List(w.Ctx, vas)
	for i := range vas.Items {
		va := vas.Items[i]
		// the attach-detach controller detaches a volume once no pod on the node uses it any more
		inUse := false
		for name, ps := range t.spec {
			if ps.pvc != "" && va.Spec.Source.PersistentVolumeName != nil && "pv-"+ps.pvc == *va.Spec.Source.PersistentVolumeName && t.livePod(name) != nil {
				inUse = true
			}
		}
		if !inUse && !t.sc.slowDetach {
			out = append(out, action{"volume-detached:" + va.Name, func() { w.EnvDelete(&va) }})
		}
	}
	for _, inst := range w.CP.Live() {
		if inst.Terminating {
			pid := inst.ProviderID
			out = append(out, action{"instance-terminated", func() { w.InstanceGone(pid) }})
		}
	}
	return out
}

func (t *termRun) extraEvents() []action {
	w := t.w
	out := []action{
		{"clock+1s", func() { w.Clock.Step(time.Second) }},
		{"clock+61s", func() { w.Clock.Step(61 * time.Second) }},
	}
	if t.sc.tgp != nil {
		out = append(out, action{"clock-past-tgp", func() { w.Clock.Step(*t.sc.tgp + time.Second) }})
		// jumps to the instants around every threshold of the statement: the node deadline D and, per pod grace period g,
		// D-g (from when the pod may be deleted directly), plus one instant inside each window
		if dl := t.currentDeadline(); dl != nil {
			offs := map[time.Duration]bool{-time.Second: true, -500 * time.Millisecond: true, 0: true, time.Second: true}
			for _, ps := range t.spec {
				if ps.grace != nil {
					g := time.Duration(*ps.grace) * time.Second
					for _, o := range []time.Duration{-g - time.Second, -g, -g + time.Second, -g / 2} {
						offs[o] = true
					}
				}
			}
			var sorted []time.Duration
			for o := range offs {
				sorted = append(sorted, o)
			}
			sort.Slice(sorted, func(i, j int) bool { return sorted[i] < sorted[j] })
			for _, o := range sorted {
				at := dl.Add(o)
				if at.After(w.Clock.Now()) {
					out = append(out, action{fmt.Sprintf("clock-to:deadline%+v", o), func() { w.Clock.Step(at.Sub(w.Clock.Now())) }})
				}
			}
		}
	}
	if n := w.GetNode("n1"); n != nil {
		out = append(out, action{"node-not-ready", func() {
			for i := range n.Status.Conditions {
				if n.Status.Conditions[i].Type == corev1.NodeReady {
					n.Status.Conditions[i].Status = corev1.ConditionFalse
				}
			}
			w.EnvUpdate(n)
		}})
		if n.DeletionTimestamp == nil {
			out = append(out, action{"user-deletes-node", func() { _ = w.Client.Delete(w.Ctx, n) }})
		}
	}
	for _, inst := range w.CP.Live() {
		if !inst.Terminating {
			pid := inst.ProviderID
			out = append(out, action{"instance-vanishes", func() { w.InstanceGone(pid) }})
		}
	}
	pdbs := &policyv1.PodDisruptionBudgetList{}
	_ = w.Raw.List(w.Ctx, pdbs)
	if len(pdbs.Items) > 0 {
		out = append(out, action{"pdbs-allow", func() {
			for i := range pdbs.Items {
				pdbs.Items[i].Status.DisruptionsAllowed = 1
				w.EnvUpdate(&pdbs.Items[i])
			}
		}})
	}
	if n := t.sc.replaced; n != "" {
		if p := t.livePod(n); p != nil && p.UID == t.pods[n].UID {
			out = append(out, action{"pod-replaced-under-same-name:" + n, func() {
				w.EnvDelete(p)
				np := world.Pod(n, 100, world.Bound("n2"))
				np.UID = types.UID("pod-" + n + "-second")
				np.Labels = map[string]string{"app": n}
				np.Annotations = map[string]string{v1.DoNotDisruptAnnotationKey: "true"}
				world.OwnedBy("StatefulSet", "sts")(np)
				st := metaT(w.Clock.Now())
				np.Status.StartTime = &st
				w.Add(np)
			}})
		}
	}
	out = append(out, action{"controller-restart", func() { t.newControllers() }})
	if t.sc.slowDetach {
		vas := &storagev1.VolumeAttachmentList{}
		_ = w.Raw.List(w.Ctx, vas)
		for i := range vas.Items {
			va := vas.Items[i]
			out = append(out, action{"volume-detached:" + va.Name, func() { w.EnvDelete(&va) }})
		}
	}
	return out
}

// run executes one history. The default script is a fair cycle: every enabled controller action in order, then every
// enabled progress event of the environment, then clock +1s; a deviation (cost 1) inserts any other enabled action or
// event before the scripted one.
// interleaveNames: the static superset of environment events that may happen in the middle of a reconcile.
func (t *termRun) interleaveNames() []string {
	var out []string
	names := make([]string, 0, len(t.pods))
	for n := range t.pods {
		names = append(names, n)
	}
	sort.Strings(names)
	for _, n := range names {
		out = append(out, "pod-finished:"+n)
	}
	vas := &storagev1.VolumeAttachmentList{}
	_ = t.w.Raw.List(t.w.Ctx, vas)
	for i := range vas.Items {
		out = append(out, "volume-detached:"+vas.Items[i].Name)
	}
	out = append(out, "instance-terminated", "instance-vanishes", "node-not-ready", "user-deletes-node")
	if t.sc.replaced != "" {
		out = append(out, "pod-replaced-under-same-name:"+t.sc.replaced)
	}
	pdbs := &policyv1.PodDisruptionBudgetList{}
	_ = t.w.Raw.List(t.w.Ctx, pdbs)
	if len(pdbs.Items) > 0 {
		out = append(out, "pdbs-allow")
	}
	return out
}

func (t *termRun) run(run *explore.Run, steps int, faults func(c *world.Call) bool, after func(c *world.Call, t *termRun)) {
	w := t.w
	if t.interleave {
		w.AttachInterleave(run, t.interleaveNames(), func(name, before string) bool {
			for _, a := range append(t.envEvents(), t.extraEvents()...) {
				if a.name == name {
					a.do()
					t.history = append(t.history, "{"+name+" during the reconcile, before "+before+"}")
					return true
				}
			}
			return false
		})
	}
	var taken *[]world.Injected
	if faults != nil {
		// a failure may be transient (one call) or persist for the rest of the step (every retry of the same call fails too)
		taken = w.AttachFaultsOpt(run, faults, true)
	}
	if after != nil {
		w.Client.After = func(c *world.Call) { after(c, t) }
	}
	// trigger
	w.Client.Quiet++
	if t.sc.first == "node" {
		_ = w.Client.Delete(w.Ctx, w.GetNode("n1"))
	} else {
		_ = w.Client.Delete(w.Ctx, w.GetNodeClaim(t.nc.Name))
	}
	w.Client.Quiet--
	done := map[string]bool{} // scripted actions already taken in the current cycle
	for s := 0; s < steps; s++ {
		if w.GetNode("n1") == nil && w.GetNodeClaim(t.nc.Name) == nil {
			break
		}
		acts := t.actions()
		envs := t.envEvents()
		script := append(append([]action{}, acts...), envs...)
		script = append(script, action{"clock+6s", func() { w.Clock.Step(6 * time.Second) }})
		var scripted action
		for _, a := range script {
			if !done[a.name] {
				scripted = a
				break
			}
		}
		menu := []action{scripted}
		for _, a := range script {
			if a.name != scripted.name {
				menu = append(menu, a)
			}
		}
		for _, a := range t.extraEvents() {
			if a.name != scripted.name {
				menu = append(menu, a)
			}
		}
		k := run.Choose("step", len(menu), nil)
		if k == 0 {
			done[scripted.name] = true
			if scripted.name == "clock+6s" {
				done = map[string]bool{}
			}
		}
		t.history = append(t.history, menu[k].name)
		menu[k].do()
		w.ClearPersistentFaults()
	}
	if taken != nil {
		for _, f := range *taken {
			t.history = append(t.history, "fault:"+f.Call+"="+f.Fault)
		}
	}
}

func (t *termRun) drainableRemaining() []string {
	var out []string
	for name, ps := range t.spec {
		p := t.livePod(name)
		if p == nil || p.Status.Phase == corev1.PodSucceeded || p.Status.Phase == corev1.PodFailed {
			continue
		}
		if ps.static || ps.tolerates {
			continue
		}
		if p.DeletionTimestamp != nil && t.w.Clock.Since(p.DeletionTimestamp.Time) > time.Minute {
			continue // stuck terminating
		}
		out = append(out, name)
	}
	sort.Strings(out)
	return out
}

func hist(t *termRun) string { return strings.Join(t.history, ",") }

var dbgHook func(t *termRun) = func(*termRun) {}
