package checks

import (
	"fmt"
	"math"
	"os"
	"sort"
	"strings"
	"time"

	corev1 "k8s.io/api/core/v1"

	v1 "sigs.k8s.io/karpenter/pkg/apis/v1"

	"verif/internal/enum"
	"verif/internal/ev"
	"verif/internal/explore"
	"verif/oracle"
	"verif/world"
)

// C06 — consolidation keeps pods schedulable and strictly lowers cost.

// K5: 17-step spot price ladder (plus on-demand), all the same size, for the spot-to-spot rules.
func ladderCatalog() []world.ITSpec {
	var out []world.ITSpec
	for i := 1; i <= 17; i++ {
		out = append(out, world.ITSpec{Name: fmt.Sprintf("t%02d", i), CPU: 4, MemGi: 8, Pods: 8, Offers: []world.OfSpec{
			of("a", "spot", 0.1*float64(i)), of("a", "on-demand", 1+0.1*float64(i))}})
	}
	return out
}

type c06NodeKind struct {
	name, typ, zone, ct string
}

type c06Load struct {
	name string
	pods func(node string) []dPod
}

var c06Loads = []c06Load{
	{"empty", func(n string) []dPod { return nil }},
	{"small", func(n string) []dPod { return []dPod{{name: "s-" + n, cpu: 300}} }},
	{"medium", func(n string) []dPod { return []dPod{{name: "m-" + n, cpu: 1500}} }},
	{"large", func(n string) []dPod { return []dPod{{name: "l-" + n, cpu: 3000}} }},
	{"small+zone-a-selector", func(n string) []dPod {
		return []dPod{{name: "s-" + n, cpu: 300}, {name: "z-" + n, cpu: 400, sel: map[string]string{corev1.LabelTopologyZone: "a"}}}
	}},
	{"on-demand-selector", func(n string) []dPod {
		return []dPod{{name: "o-" + n, cpu: 600, sel: map[string]string{v1.CapacityTypeLabelKey: "on-demand"}}}
	}},
	{"zero-cost-pod", func(n string) []dPod { return []dPod{{name: "c-" + n, cpu: 200, cost: "-2147483647"}} }},
	{"daemon-only", func(n string) []dPod { return []dPod{{name: "d-" + n, cpu: 100, daemon: true}} }},
	{"small+pod-no-other-node-can-host", func(n string) []dPod {
		return []dPod{{name: "s-" + n, cpu: 300}, {name: "u-" + n, cpu: 200, sel: map[string]string{"decommissioned-label": "only-here"}}}
	}},
}

type c06Case struct {
	catalog string
	kinds   []c06NodeKind
	loads   []int
	policy  v1.ConsolidationPolicy
	spot2   bool
	minVals bool
	// latePod: during the 15 s validation delay kube-scheduler binds one more pod (1500m) to node n0
	latePod bool
}

func (c c06Case) String() string {
	var ns []string
	for i, k := range c.kinds {
		ns = append(ns, fmt.Sprintf("%s[%s]", k.name, c06Loads[c.loads[i]].name))
	}
	return fmt.Sprintf("catalog=%s nodes=%v policy=%s spotToSpot=%v minValues=%v latePod=%v", c.catalog, ns, c.policy, c.spot2, c.minVals, c.latePod)
}

// zonalCatalog(pos): seven on-demand types of one size in two zones; five cheap ones (0.10 .. 0.50 in zone a, +0.02 in
// zone b) of which the one at position pos is DEAR in zone b (5.00), the type "cur" of the nodes to consolidate (1.00)
// and a bigger-priced "big" (2.00). Ordering by cheapest offering and by worst-case launch price disagree for the zonal
// type, whatever its position in the price-ordered list.
func zonalCatalog(pos int) []world.ITSpec {
	var out []world.ITSpec
	for i := 0; i < 5; i++ {
		a := 0.1 * float64(i+1)
		b := a + 0.02
		if i == pos {
			b = 5.0
		}
		out = append(out, world.ITSpec{Name: fmt.Sprintf("z%d", i+1), CPU: 4, MemGi: 8, Pods: 8, Offers: []world.OfSpec{of("a", "on-demand", a), of("b", "on-demand", b)}})
	}
	out = append(out, world.ITSpec{Name: "cur", CPU: 4, MemGi: 8, Pods: 8, Offers: []world.OfSpec{of("a", "on-demand", 1.0), of("b", "on-demand", 1.0)}})
	out = append(out, world.ITSpec{Name: "big", CPU: 4, MemGi: 8, Pods: 8, Offers: []world.OfSpec{of("a", "on-demand", 2.0), of("b", "on-demand", 2.1)}})
	return out
}

func c06Catalog(name string) []world.ITSpec {
	if name == "ladder" {
		return ladderCatalog()
	}
	if strings.HasPrefix(name, "zonal") {
		var pos int
		fmt.Sscanf(name, "zonal%d", &pos)
		return zonalCatalog(pos)
	}
	return catalogs[name]
}

func (c c06Case) world() dWorld {
	np := world.NodePool("default")
	np.Spec.Disruption.ConsolidationPolicy = c.policy
	if strings.HasPrefix(c.catalog, "zonal") {
		// the zonal catalogs sell on-demand only: without this the OD -> [OD, spot] rule pins the request to spot, which
		// nothing offers, and the price clauses become vacuous
		np.Spec.Template.Spec.Requirements = append(np.Spec.Template.Spec.Requirements, v1.NodeSelectorRequirementWithMinValues{Key: v1.CapacityTypeLabelKey, Operator: corev1.NodeSelectorOpIn, Values: []string{"on-demand"}})
	}
	if c.minVals {
		np.Spec.Template.Spec.Requirements = append(np.Spec.Template.Spec.Requirements, v1.NodeSelectorRequirementWithMinValues{Key: corev1.LabelInstanceTypeStable, Operator: corev1.NodeSelectorOpExists, MinValues: two()})
	}
	var nodes []dNode
	for i, k := range c.kinds {
		name := fmt.Sprintf("n%d", i)
		nodes = append(nodes, dNode{name: name, pool: "default", typ: k.typ, zone: k.zone, ct: k.ct, pods: c06Loads[c.loads[i]].pods(name)})
	}
	return dWorld{catalog: c06Catalog(c.catalog), pools: []*v1.NodePool{np}, nodes: nodes, spotToSpot: c.spot2}
}

func priceOf(cat []world.ITSpec, typ, zone, ct string) float64 {
	for _, o := range pickType(cat, typ).Offers {
		if o.Zone == zone && o.CT == ct {
			return o.Price
		}
	}
	return math.NaN()
}

// worstLaunch: documented precedence reserved > spot > on-demand among the available offerings of t the request admits.
func worstLaunch(launches []struct {
	T world.ITSpec
	O world.OfSpec
	L map[string]string
}, typ string) float64 {
	for _, ct := range []string{"reserved", "spot", "on-demand"} {
		worst := -1.0
		for _, l := range launches {
			if l.T.Name == typ && l.O.CT == ct && l.O.Price > worst {
				worst = l.O.Price
			}
		}
		if worst >= 0 {
			return worst
		}
	}
	return math.MaxFloat64
}

func (c c06Case) judge(env *DEnv, cmds []*disruptionCommand, late *corev1.Pod) (viol []c01Violation, nontrivial bool) {
	w := env.W
	cat := c06Catalog(c.catalog)
	senv := &SchedEnv{W: w, Catalog: cat, Volumes: map[string][]oracle.Volume{}, Case: SchedCase{}}
	for _, p := range env.Pods {
		senv.Pending = append(senv.Pending, p)
	}
	for _, cmd := range cmds {
		cands := cmdCandidates(cmd)
		isCand := map[string]bool{}
		sum := 0.0
		allSpot, anyOD := true, false
		for _, cn := range cands {
			isCand[cn] = true
			for i, k := range c.kinds {
				if fmt.Sprintf("n%d", i) == cn {
					sum += priceOf(cat, k.typ, k.zone, k.ct)
					if k.ct != "spot" {
						allSpot = false
					}
					if k.ct == "on-demand" {
						anyOD = true
					}
				}
			}
		}
		reason := string(cmd.Reason())
		// (5) emptiness: no reschedulable pod with positive eviction cost on a node deleted as empty
		if reason == "Empty" {
			for i := range c.kinds {
				name := fmt.Sprintf("n%d", i)
				if !isCand[name] {
					continue
				}
				for _, dp := range c06Loads[c.loads[i]].pods(name) {
					if !dp.daemon && dp.cost != "-2147483647" {
						viol = append(viol, c01Violation{"node deleted as empty although it hosts a reschedulable pod with positive eviction cost", fmt.Sprintf("Emptiness deletes %s which hosts pod %s", name, dp.name)})
					}
				}
			}
			continue
		}
		nontrivial = true
		// (1) every reschedulable pod of the candidates has a home: an initialized non-candidate node or the one replacement
		if len(cmd.Replacements) > 1 {
			viol = append(viol, c01Violation{"consolidation with more than one replacement", fmt.Sprintf("command %s has %d replacements", cmdString(cmd), len(cmd.Replacements))})
		}
		placed := map[string]string{}
		for _, en := range cmd.Results.ExistingNodes {
			for _, p := range en.Pods {
				placed[p.Name] = "existing:" + en.Name()
				if isCand[en.Name()] {
					viol = append(viol, c01Violation{"pod rescheduled onto a node that is itself being removed", fmt.Sprintf("pod %s is placed on candidate %s", p.Name, en.Name())})
				}
			}
		}
		for _, nc := range cmd.Results.NewNodeClaims {
			for _, p := range nc.Pods {
				placed[p.Name] = "replacement"
			}
		}
		for i := range c.kinds {
			name := fmt.Sprintf("n%d", i)
			if !isCand[name] {
				continue
			}
			for _, dp := range c06Loads[c.loads[i]].pods(name) {
				if dp.daemon {
					continue
				}
				if _, ok := placed[dp.name]; !ok {
					viol = append(viol, c01Violation{"reschedulable pod of a removed node has no home", fmt.Sprintf("pod %s on candidate %s appears nowhere in the command's scheduling results (%s)", dp.name, name, cmdString(cmd))})
				}
			}
		}
		// admissibility of the placements on remaining nodes
		for _, en := range cmd.Results.ExistingNodes {
			if len(en.Pods) == 0 || isCand[en.Name()] {
				continue
			}
			var kind *c06NodeKind
			var idx int
			for i := range c.kinds {
				if fmt.Sprintf("n%d", i) == en.Name() {
					kind, idx = &c.kinds[i], i
				}
			}
			if kind == nil {
				continue
			}
			t := pickType(cat, kind.typ)
			var ofr world.OfSpec
			for _, o := range t.Offers {
				if o.Zone == kind.zone && o.CT == kind.ct {
					ofr = o
				}
			}
			labels := world.LaunchLabels(t, ofr)
			labels[v1.NodePoolLabelKey] = "default"
			labels[corev1.LabelHostname] = en.Name()
			var there []*corev1.Pod
			for _, dp := range c06Loads[c.loads[idx]].pods(en.Name()) {
				there = append(there, env.Pods[dp.name])
			}
			var moved []*corev1.Pod
			for _, p := range en.Pods {
				if o := env.Pods[p.Name]; o != nil {
					moved = append(moved, o)
				}
			}
			for _, p := range moved {
				var others []*corev1.Pod
				others = append(others, there...)
				for _, q := range moved {
					if q.Name != p.Name {
						others = append(others, q)
					}
				}
				view := oracle.NodeView{Name: en.Name(), Labels: labels, AllocCPUm: t.AllocCPUm(ofr), AllocMem: t.AllocMem(), AllocPods: int64(t.Pods), AllocExt: map[string]int64{}, Pods: others}
				if why := oracle.Admit(p, view); len(why) > 0 {
					viol = append(viol, c01Violation{"consolidation placement inadmissible: " + reasonClass(why), fmt.Sprintf("pod %s moved to %s is inadmissible: %s", p.Name, en.Name(), strings.Join(why, "; "))})
				}
			}
		}
		// the replacement, as created in the API
		for _, rep := range cmd.Replacements {
			nc := w.GetNodeClaim(rep.Name)
			if nc == nil {
				continue
			}
			var pods []*corev1.Pod
			for _, p := range rep.NodeClaim.Pods {
				if o := env.Pods[p.Name]; o != nil {
					pods = append(pods, o)
				}
			}
			viol = append(viol, senv.judgeNewNodeClaim(nc, pods)...)
			launches := senv.launchesFor(nc)
			if os.Getenv("C06_ONLY") != "" {
				fmt.Printf("replacement %s request %s launches=%d sum=%.2f\n", nc.Name, reqsCanon(nc.Spec.Requirements), len(launches), sum)
			}
			listed, _ := reqValues(nc.Spec.Requirements, corev1.LabelInstanceTypeStable)
			// (2) worst-case launch price of every listed type strictly below the candidates' combined price
			for _, typ := range listed {
				if wl := worstLaunch(launches, typ); wl >= sum && wl != math.MaxFloat64 {
					viol = append(viol, c01Violation{"replacement not strictly cheaper", fmt.Sprintf("replacement may launch as %s at worst-case price %.3f >= combined candidate price %.3f (%s; request %s)", typ, wl, sum, cmdString(cmd), reqsCanon(nc.Spec.Requirements))})
				}
			}
			// (3) an on-demand candidate: no on-demand launch of the request costs >= the sum
			if anyOD {
				for _, l := range launches {
					if l.O.CT == "on-demand" && l.O.Price >= sum {
						viol = append(viol, c01Violation{"on-demand node replaced by a request that can fall back to an equally or more expensive on-demand launch", fmt.Sprintf("request %s admits %s/%s/on-demand at %.3f >= %.3f", reqsCanon(nc.Spec.Requirements), l.T.Name, l.O.Zone, l.O.Price, sum)})
						break
					}
				}
			}
			// (4) spot-to-spot rules
			spotReplacement := false
			for _, l := range launches {
				if l.O.CT == "spot" {
					spotReplacement = true
				}
			}
			if allSpot && spotReplacement {
				if !c.spot2 {
					viol = append(viol, c01Violation{"spot-to-spot replacement with the feature disabled", cmdString(cmd)})
				}
				if len(cands) == 1 {
					if len(listed) < 15 {
						viol = append(viol, c01Violation{"single-node spot-to-spot with fewer than 15 cheaper options", fmt.Sprintf("%d instance types listed (%s)", len(listed), cmdString(cmd))})
					}
					if len(listed) > 15 && !c.minVals {
						viol = append(viol, c01Violation{"single-node spot-to-spot list not truncated to 15", fmt.Sprintf("%d instance types listed", len(listed))})
					}
				}
			}
		}
		// (1b) a pod that kube-scheduler bound to a removed node DURING the validation delay is a reschedulable pod of that
		// node like any other: it needs a feasible home next to everything the command places
		if late != nil && isCand[late.Spec.NodeName] && placed[late.Name] == "" {
			home := false
			for _, rep := range cmd.Replacements {
				nc := w.GetNodeClaim(rep.Name)
				if nc == nil {
					continue
				}
				pods := []*corev1.Pod{late}
				for _, p := range rep.NodeClaim.Pods {
					if o := env.Pods[p.Name]; o != nil {
						pods = append(pods, o)
					}
				}
				if len(senv.judgeNewNodeClaim(nc, pods)) == 0 && len(senv.launchesFor(nc)) > 0 {
					home = true
				}
			}
			for i := range c.kinds {
				name := fmt.Sprintf("n%d", i)
				if isCand[name] || home {
					continue
				}
				k := c.kinds[i]
				t := pickType(cat, k.typ)
				var ofr world.OfSpec
				for _, o := range t.Offers {
					if o.Zone == k.zone && o.CT == k.ct {
						ofr = o
					}
				}
				labels := world.LaunchLabels(t, ofr)
				labels[v1.NodePoolLabelKey] = "default"
				labels[corev1.LabelHostname] = name
				var there []*corev1.Pod
				for _, dp := range c06Loads[c.loads[i]].pods(name) {
					there = append(there, env.Pods[dp.name])
				}
				for _, en := range cmd.Results.ExistingNodes {
					if en.Name() == name {
						for _, p := range en.Pods {
							if o := env.Pods[p.Name]; o != nil {
								there = append(there, o)
							}
						}
					}
				}
				view := oracle.NodeView{Name: name, Labels: labels, AllocCPUm: t.AllocCPUm(ofr), AllocMem: t.AllocMem(), AllocPods: int64(t.Pods), AllocExt: map[string]int64{}, Pods: there}
				if len(oracle.Admit(late, view)) == 0 {
					home = true
				}
			}
			if !home {
				viol = append(viol, c01Violation{"reschedulable pod of a removed node has no home (pod bound during the validation delay)", fmt.Sprintf("pod %s was bound to candidate %s during the validation delay; the accepted command %s leaves it no feasible home next to what it places", late.Name, late.Spec.NodeName, cmdString(cmd))})
			}
		}
	}
	return viol, nontrivial
}

func init() {
	register("C06", "exploration", func(r *ev.Rec) {
		kindsK1 := []c06NodeKind{{"s-od", "s", "a", "on-demand"}, {"m-od", "m", "a", "on-demand"}, {"l-od", "l", "b", "on-demand"}, {"m-spot", "m", "a", "spot"}, {"l-spot", "l", "b", "spot"}}
		kindsLadder := []c06NodeKind{{"t17-spot", "t17", "a", "spot"}, {"t16-spot", "t16", "a", "spot"}, {"t10-spot", "t10", "a", "spot"}, {"t05-od", "t05", "a", "on-demand"}}
		var cases []c06Case
		addCases := func(catalog string, kinds []c06NodeKind, sizes []int, loads []int) {
			for _, size := range sizes {
				dims := []int{}
				for i := 0; i < size; i++ {
					dims = append(dims, len(kinds), len(loads))
				}
				for i := int64(0); i < enum.Size(dims...); i++ {
					d := enum.Odo(i, dims...)
					var ks []c06NodeKind
					var ls []int
					sorted := true
					for j := 0; j < size; j++ {
						ks = append(ks, kinds[d[2*j]])
						ls = append(ls, loads[d[2*j+1]])
						if j > 0 && (d[2*j]*100+d[2*j+1]) < (d[2*j-2]*100+d[2*j-1]) {
							sorted = false // node order is irrelevant: enumerate multisets
						}
					}
					if !sorted {
						continue
					}
					for _, pol := range []v1.ConsolidationPolicy{v1.ConsolidationPolicyWhenEmptyOrUnderutilized, v1.ConsolidationPolicyBalanced} {
						for _, s2 := range []bool{false, true} {
							cases = append(cases, c06Case{catalog: catalog, kinds: ks, loads: ls, policy: pol, spot2: s2})
						}
					}
					if catalog == "K1" && size <= 2 {
						// the same cluster with a pod landing on n0 during the validation delay
						cases = append(cases, c06Case{catalog: catalog, kinds: ks, loads: ls, policy: v1.ConsolidationPolicyWhenEmptyOrUnderutilized, latePod: true})
					}
				}
			}
		}
		allLoads := seq(len(c06Loads))
		if r.Tier == "thorough" {
			addCases("K1", kindsK1, []int{2, 3}, allLoads)
			addCases("K2", kindsK1[:4], []int{2}, allLoads)
			addCases("ladder", kindsLadder, []int{1, 2}, []int{1, 2, 3, 5})
		} else {
			addCases("K1", kindsK1, []int{2}, allLoads)
			addCases("K1", kindsK1[1:4], []int{3}, []int{0, 1, 2, 4, 8})
			addCases("ladder", kindsLadder, []int{1, 2}, []int{1, 2, 5})
		}
		// zone-specific prices: a type that is cheap in one zone and dear in the other, at every position of the list
		kindsZonal := []c06NodeKind{{"cur-od", "cur", "a", "on-demand"}, {"big-od", "big", "b", "on-demand"}}
		for pos := 0; pos < 5; pos++ {
			addCases(fmt.Sprintf("zonal%d", pos), kindsZonal, []int{1, 2}, []int{1, 2, 4})
		}
		// minValues variants on the ladder
		for _, k := range kindsLadder[:2] {
			for _, s2 := range []bool{false, true} {
				cases = append(cases, c06Case{catalog: "ladder", kinds: []c06NodeKind{k}, loads: []int{1}, policy: v1.ConsolidationPolicyWhenEmptyOrUnderutilized, spot2: s2, minVals: true})
			}
		}
		r.Rule = fmt.Sprintf("%d clusters: multisets of 1-3 nodes over (instance type, zone, capacity type) kinds of catalogs K1/K2, a 17-step spot price ladder and five catalogs with a zone-specific price (a type cheap in one zone and dear in the other, at each position of the price-ordered list) x per-node loads {%s} x policy {WhenEmptyOrUnderutilized, Balanced} x SpotToSpot gate {off,on} (+ minValues variants, + the K1 clusters again with a 1500m pod that kube-scheduler binds to the first node DURING the 15 s validation delay); the real disruption controller runs Emptiness, MultiNode and SingleNode consolidation (validation delay elapsed) and the accepted commands are judged: every reschedulable pod of the removed nodes has a home on a remaining initialized node or the single replacement and passes the admission oracle there; every instance type the created replacement NodeClaim lists has a worst-case launch price (reserved > spot > on-demand) strictly below the candidates' combined price; no on-demand fallback at >= that price when a candidate is on-demand; spot-to-spot only with the gate on and, single-node, with >=15 options truncated to 15; nodes deleted as empty host no reschedulable pod with positive eviction cost. non-trivial = distinct case with a consolidation (non-Empty) command", len(cases), loadNames())
		r.Assumptions = []string{"prices come from the harness's catalog description", "every candidate subset the search visits is visited by the real code; only accepted commands are judged"}
		enum.Run(r, int64(len(cases)), func(idx int64, l *ev.Local) {
			c := cases[idx]
			if only := os.Getenv("C06_ONLY"); only != "" && !strings.Contains(c.String(), only) {
				return
			}
			env := buildDisrupt(c.world())
			if os.Getenv("C06_ONLY") != "" {
				defer func() {
					fmt.Println("C06 case:", c.String(), "\n  calls:", strings.Join(callStrings(env.W), "\n         "))
				}()
			}
			var all []*disruptionCommand
			var late *corev1.Pod
			if c.latePod {
				w := env.W
				w.Clock.OnWait = func(dd time.Duration) {
					if late != nil || dd < 10*time.Second || w.GetNode("n0") == nil {
						return
					}
					// kube-scheduler binds a pod to n0 only if it fits there
					t := pickType(c06Catalog(c.catalog), c.kinds[0].typ)
					var used int64
					for _, dp := range c06Loads[c.loads[0]].pods("n0") {
						used += dp.cpu
					}
					if t.AllocCPUm(t.Offers[0])-used < 1500 {
						return
					}
					late = world.Pod("late", 1500, world.Bound("n0"))
					w.Add(late)
					env.Pods["late"] = late
					w.SyncCluster()
				}
			}
			for round := 0; round < 2; round++ {
				cmds, err := env.round("Emptiness", "MultiNodeConsolidation", "SingleNodeConsolidation")
				l.Eval()
				if err != nil {
					l.Outcome("reconcile-error")
				}
				if len(cmds) == 0 {
					break
				}
				all = append(all, cmds...)
				viol, nt := c.judge(env, cmds, late)
				if nt {
					l.NontrivialH(ev.H(fmt.Sprintf("c06/%d/%d", idx, round)))
				}
				for _, cmd := range cmds {
					l.Outcome(fmt.Sprintf("%s %s candidates=%d replacements=%d", cmd.Reason(), cmd.Decision(), len(cmd.Candidates), len(cmd.Replacements)))
				}
				for _, v := range viol {
					l.Violation(v.Sig, v.Msg+"  ["+c.String()+"]", map[string]any{"case": c.String(), "commands": cmdStrings(cmds)})
				}
			}
			if len(all) == 0 {
				l.Outcome("no-command")
			}
			if idx%331 == 7 {
				l.Sample(map[string]any{"case": c.String(), "commands": cmdStrings(all)})
			}
		})
		c06Faults(r)
	})
}

// c06Faults — the same decisions while API READS fail: any <=1/2 of the calls of a disruption round (lists of pods, PDBs,
// NodePools, NodeClaims ...) fail once or for the rest of the round (so that the 15 s re-validation meets the same
// failure). A round may then decide nothing; what it does decide still has to be right: a node is deleted as Empty only
// if it really has no reschedulable pod, and a node with pods is only removed by a command that simulated them
// (replacement or capacity elsewhere: judged by the same oracle as the fault-free part).
func c06Faults(r *ev.Rec) {
	bound := 1
	if r.Tier == "thorough" {
		bound = 2
	}
	type fc struct {
		name    string
		nodes   []dNode
		methods []string
	}
	loaded := func(n string, cpu int64) dNode {
		return dNode{name: n, pool: "default", typ: "m", zone: "a", ct: "on-demand", pods: []dPod{{name: "p-" + n, cpu: cpu}}}
	}
	empty := func(n string) dNode { return dNode{name: n, pool: "default", typ: "m", zone: "a", ct: "on-demand"} }
	cases := []fc{
		{"one loaded node, nowhere else to go", []dNode{loaded("a", 3000)}, []string{"Emptiness"}},
		{"loaded + empty", []dNode{loaded("a", 3000), empty("b")}, []string{"Emptiness"}},
		{"two loaded nodes that could share one", []dNode{loaded("a", 1000), loaded("b", 1000)}, []string{"Emptiness", "MultiNodeConsolidation", "SingleNodeConsolidation"}},
		{"loaded + empty, all methods", []dNode{loaded("a", 3000), empty("b")}, allMethods},
	}
	enum.Run(r, int64(len(cases)), func(idx int64, l *ev.Local) {
		c := cases[idx]
		ex := &explore.Explorer{Bound: bound, MaxExecs: 100000, Stop: r.Expired}
		ex.Exec = func(run *explore.Run) {
			env := buildDisrupt(dWorld{catalog: K1, pools: []*v1.NodePool{world.NodePool("default")}, nodes: c.nodes})
			w := env.W
			taken := w.AttachFaultsOpt(run, func(cl *world.Call) bool { return cl.Verb == "list" || cl.Verb == "get" }, true)
			cmds, _ := env.round(c.methods...)
			w.Client.Hook, w.CP.Hook = nil, nil
			w.ClearPersistentFaults()
			l.Eval()
			l.Traces++
			var faults []string
			for _, f := range *taken {
				faults = append(faults, f.Call+"="+f.Fault)
			}
			l.NontrivialH(ev.H(fmt.Sprintf("c06f/%d/%v/%v", idx, faults, cmdStrings(cmds))))
			if len(cmds) == 0 {
				l.Outcome("faults: no-command")
			}
			for _, cmd := range cmds {
				l.Outcome(fmt.Sprintf("faults: %s %s candidates=%d replacements=%d", cmd.Reason(), cmd.Decision(), len(cmd.Candidates), len(cmd.Replacements)))
				for _, cn := range cmdCandidates(cmd) {
					var pods []string
					for _, dn := range c.nodes {
						if dn.name == cn {
							for _, p := range dn.pods {
								pods = append(pods, p.name)
							}
						}
					}
					if len(pods) == 0 {
						continue
					}
					if string(cmd.Reason()) == "Empty" {
						l.Violation("node with reschedulable pods deleted as Empty", fmt.Sprintf("node %s hosts %v (eviction cost > 0), yet a command with reason Empty deletes it  [%s; faults %v; commands %v]", cn, pods, c.name, faults, cmdStrings(cmds)),
							map[string]any{"case": c.name, "faults": faults, "plan": run.Plan(), "choices": run.Choices()})
					} else if len(cmd.Replacements) == 0 {
						// a delete without replacement: the pods need room on a node that stays
						room := false
						removed := map[string]bool{}
						for _, x := range cmdCandidates(cmd) {
							removed[x] = true
						}
						for _, dn := range c.nodes {
							if !removed[dn.name] {
								room = true
							}
						}
						if !room {
							l.Violation("node with pods deleted without replacement although no node remains", fmt.Sprintf("command %s removes %s (pods %v) and leaves no node  [%s; faults %v]", cmdString(cmd), cn, pods, c.name, faults), map[string]any{"case": c.name, "faults": faults, "plan": run.Plan()})
						}
					}
				}
			}
		}
		ex.Explore()
		noteDiverged(l, ex, "faults")
		l.Transitions += int64(ex.Points)
		if ex.Capped {
			l.Outcome("fault-exploration-capped")
			r.Exhaustive = false
		}
	})
}

func loadNames() string {
	var n []string
	for _, l := range c06Loads {
		n = append(n, l.name)
	}
	sort.Strings(n)
	return strings.Join(n, ", ")
}
