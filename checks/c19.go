package checks

import (
	"fmt"
	"math"
	"sort"
	"strings"

	corev1 "k8s.io/api/core/v1"

	v1 "sigs.k8s.io/karpenter/pkg/apis/v1"
	"sigs.k8s.io/karpenter/pkg/controllers/provisioning/scheduling"
	"sigs.k8s.io/karpenter/pkg/operator/options"

	"verif/internal/enum"
	"verif/internal/ev"
	"verif/internal/explore"
	"verif/oracle"
	"verif/world"
)

// C19 — NodePool weight order and price order of the launch list.

var c19Pools = []poolCfg{
	{"w10:l-zone-b | w0:open", func() []*v1.NodePool {
		return []*v1.NodePool{world.NodePool("heavy", weight(10), reqsMod(oracle.R(corev1.LabelInstanceTypeStable, corev1.NodeSelectorOpIn, "l"), oracle.R(corev1.LabelTopologyZone, corev1.NodeSelectorOpIn, "b"))), world.NodePool("default")}
	}},
	{"w10:tainted | w5:zone-a | w0:open", func() []*v1.NodePool {
		return []*v1.NodePool{world.NodePool("a-tainted", weight(10), taintMod(corev1.Taint{Key: "dedicated", Value: "x", Effect: corev1.TaintEffectNoSchedule})),
			world.NodePool("b-zone-a", weight(5), reqsMod(oracle.R(corev1.LabelTopologyZone, corev1.NodeSelectorOpIn, "a"))), world.NodePool("c-open")}
	}},
	{"w5:arm64 | w5:open (tie)", func() []*v1.NodePool {
		return []*v1.NodePool{world.NodePool("arm", weight(5), reqsMod(oracle.R(corev1.LabelArchStable, corev1.NodeSelectorOpIn, "arm64"))), world.NodePool("open", weight(5))}
	}},
	{"w10:cpu-limit-3 | w1:open", func() []*v1.NodePool {
		return []*v1.NodePool{world.NodePool("limited", weight(10), limitsMod("3")), world.NodePool("open", weight(1))}
	}},
	// a heavy pool far below a generous cpu limit (its limits name cpu only), which may already own a node
	{"w10:cpu-limit-100 | w1:open", func() []*v1.NodePool {
		return []*v1.NodePool{world.NodePool("roomy", weight(10), limitsMod("100")), world.NodePool("open", weight(1))}
	}},
	{"w10:on-demand | w0:open | w0:zone-b", func() []*v1.NodePool {
		return []*v1.NodePool{world.NodePool("od", weight(10), reqsMod(oracle.R(v1.CapacityTypeLabelKey, corev1.NodeSelectorOpIn, "on-demand"))), world.NodePool("open"),
			world.NodePool("zb", reqsMod(oracle.R(corev1.LabelTopologyZone, corev1.NodeSelectorOpIn, "b")))}
	}},
	{"w3:fam-x | w2:gen-gte-2 | w1:open", func() []*v1.NodePool {
		return []*v1.NodePool{world.NodePool("famx", weight(3), reqsMod(oracle.R(world.FamKey, corev1.NodeSelectorOpIn, "x"))),
			world.NodePool("gen2", weight(2), reqsMod(oracle.R(world.GenKey, v1.NodeSelectorOpGte, "2"))), world.NodePool("open", weight(1))}
	}},
}

var c19Shapes = []string{"small", "medium", "large", "zone-a-selector", "arm64", "fam-x", "tolerates-dedicated", "on-demand-selector", "gpu", "zone-b-selector-large", "ct-notin-spot", "gen-gt-1-lt-3"}

func shapeIdx(name string) int {
	for i, s := range podShapes {
		if s.name == name {
			return i
		}
	}
	panic("unknown shape " + name)
}

// poolFeasible: could a node of this NodePool, launched as some (type, offering) of the catalog, host the pod alone?
// cpuBudget is the cpu (cores) the pool may still add under its limits (MaxInt64 if unlimited).
func (env *SchedEnv) poolFeasible(np *v1.NodePool, p *corev1.Pod, cpuBudget int64) (bool, string) {
	for _, t := range env.Catalog {
		if int64(t.CPU) > cpuBudget {
			continue
		}
		for _, o := range t.Offers {
			if !o.Available {
				continue
			}
			L := world.LaunchLabels(t, o)
			for k, v := range np.Spec.Template.Labels {
				L[k] = v
			}
			L[v1.NodePoolLabelKey] = np.Name
			ok := true
			for _, key := range oracle.Keys(np.Spec.Template.Spec.Requirements) {
				val, present := L[key]
				if !oracle.SatAll(np.Spec.Template.Spec.Requirements, key, present, val) {
					ok = false
				}
			}
			if !ok {
				continue
			}
			view := oracle.NodeView{Labels: L, Taints: np.Spec.Template.Spec.Taints, AllocCPUm: t.AllocCPUm(o), AllocMem: t.AllocMem(), AllocPods: int64(t.Pods), AllocExt: map[string]int64{}, PodVolumes: env.Volumes}
			for k, n := range t.Ext {
				view.AllocExt[k] = int64(n)
			}
			view.Pods = env.expectedDaemons(L, np.Spec.Template.Spec.Taints, nil)
			if why := oracle.Admit(p, view); len(why) == 0 {
				return true, fmt.Sprintf("%s/%s/%s", t.Name, o.Zone, o.CT)
			}
		}
	}
	return false, ""
}

func (env *SchedEnv) judgeWeights(out schedOutcome) (viol []c01Violation, opened int) {
	// map hostname placeholder -> pool, via Results (Pods of each new NodeClaim) and the commit trace
	poolOf := map[string]string{} // pod -> pool of the NodeClaim it was placed on
	for _, snc := range out.Results.NewNodeClaims {
		for _, p := range snc.Pods {
			poolOf[p.Name] = snc.NodePoolName
		}
	}
	seenTarget := map[string]bool{}
	openedBefore := 0
	maxCPU := int64(0)
	for _, t := range env.Catalog {
		if int64(t.CPU) > maxCPU {
			maxCPU = int64(t.CPU)
		}
	}
	for _, pl := range env.Hooks.Placed {
		if pl.Existing || seenTarget[pl.Target] {
			continue
		}
		seenTarget[pl.Target] = true
		pool, ok := poolOf[pl.Pod]
		if !ok {
			continue // NodeClaim later dropped (e.g. truncation failure)
		}
		opened++
		pod := env.original(pl.Pod)
		var chosen *v1.NodePool
		for _, np := range env.Pools {
			if np.Name == pool {
				chosen = np
			}
		}
		if chosen == nil || pod == nil {
			continue
		}
		for _, np := range env.Pools {
			if wOf(np) <= wOf(chosen) {
				continue
			}
			budget := int64(math.MaxInt64)
			if lim, ok := np.Spec.Limits[corev1.ResourceCPU]; ok {
				budget = lim.Value()
				for _, ns := range env.Nodes {
					if ns.Pool == np.Name {
						budget -= int64(ns.Type.CPU)
					}
				}
				budget -= int64(openedBefore) * maxCPU // most pessimistic accounting of NodeClaims opened earlier in this pass
			}
			if feasible, how := env.poolFeasible(np, pod, budget); feasible {
				viol = append(viol, c01Violation{"weight order: lower-weight pool used although a higher-weight pool is feasible",
					fmt.Sprintf("pod %s opened a NodeClaim in NodePool %s (weight %d) although NodePool %s (weight %d) can host it alone, e.g. as %s", pod.Name, chosen.Name, wOf(chosen), np.Name, wOf(np), how)})
			}
		}
		openedBefore++
	}
	return viol, opened
}

func wOf(np *v1.NodePool) int32 {
	if np.Spec.Weight == nil {
		return 0
	}
	return *np.Spec.Weight
}

// cheapestPrice: price of the cheapest available offering of t admitted by the NodeClaim's requirements (ignoring the
// instance-type list itself), by the label-set oracle.
func (env *SchedEnv) cheapestPrice(nc *v1.NodeClaim, t world.ITSpec) float64 {
	best := math.MaxFloat64
	var reqs []oracle.Req
	for _, r := range nc.Spec.Requirements {
		if r.Key != corev1.LabelInstanceTypeStable {
			reqs = append(reqs, r)
		}
	}
	for _, o := range t.Offers {
		if !o.Available {
			continue
		}
		L := world.LaunchLabels(t, o)
		ok := true
		for _, key := range []string{corev1.LabelTopologyZone, v1.CapacityTypeLabelKey} {
			if !oracle.SatAll(reqs, key, true, L[key]) {
				ok = false
			}
		}
		if ok && o.Price < best {
			best = o.Price
		}
	}
	return best
}

func init() {
	register("C19", "exploration", func(r *ev.Rec) {
		shapes := make([]int, len(c19Shapes))
		for i, n := range c19Shapes {
			shapes[i] = shapeIdx(n)
		}
		bsz := 2
		workers := []int{2, 3}
		bound := 2
		maxITs := []int{1, 2}
		cats := []string{"K1", "K2", "K4", "KZ"}
		if r.Tier == "thorough" {
			workers, bound, maxITs, cats = []int{2, 3, 5}, 3, []int{1, 2, 3}, []string{"K1", "K2", "K4", "KZ"}
		}
		var bl [][]int
		for _, b := range batches(len(shapes), bsz) {
			m := make([]int, len(b))
			for i, x := range b {
				m[i] = shapes[x]
			}
			bl = append(bl, m)
		}
		r.Rule = fmt.Sprintf("weighted NodePool sets (%d) x catalogs %v x existing capacity {none, one node of the lightest pool, one node of the heaviest pool} x all batches of <=%d pods from %d shapes without preferences or inter-pod constraints x every candidate-evaluation completion order with workers %v and <=%d deviations; "+
			"weight clause: for the pod that OPENED each NodeClaim (commit trace, H1) every strictly heavier pool must be infeasible for that pod alone by the admission oracle (limits accounted most pessimistically); "+
			"price clause: the same world is solved with MaxInstanceTypes=600 and with MaxInstanceTypes in %v; the truncated launch list must be a subset of the full one, of the right size, and drop no type whose cheapest compatible available offering is strictly cheaper than a kept one. "+
			"non-trivial = distinct (case, outcome) in which a NodeClaim was opened with >=2 pools feasible or a list was truncated", len(c19Pools), cats, bsz, len(shapes), workers, bound, maxITs)
		r.Assumptions = []string{"pods without node-affinity preferences (preference relaxation may legitimately prefer a lighter pool)", "equal weights are not ordered by the oracle"}
		saved := poolCfgs
		defer func() { poolCfgs = saved }()
		poolCfgs = c19Pools
		// existing capacity: none, one node of the lightest pool, one node of the HEAVIEST pool
		nodesSel := []int{0, 1, 1}
		n := enum.Size(len(bl), len(cats), len(c19Pools), len(nodesSel))
		enum.Run(r, n, func(idx int64, l *ev.Local) {
			d := enum.Odo(idx, len(bl), len(cats), len(c19Pools), len(nodesSel))
			c := SchedCase{Batch: bl[d[0]], Catalog: cats[d[1]], Pool: d[2], Nodes: nodesSel[d[3]], NodesInHeaviest: d[3] == 2, Pref: options.PreferencePolicyRespect, MinV: options.MinValuesPolicyStrict, Workers: 1}
			// ---- weight clause under every schedule
			for _, wk := range workers {
				c.Workers = wk
				digests := map[string]bool{}
				ex := &explore.Explorer{Bound: bound, MaxExecs: 600}
				ex.Exec = func(run *explore.Run) {
					env := buildSched(c)
					out := env.runPass(run, wk)
					l.Eval()
					l.Traces++
					if out.Err != nil {
						return
					}
					digests[out.Digest] = true
					viol, opened := env.judgeWeights(out)
					if opened > 0 {
						l.NontrivialH(ev.H(fmt.Sprintf("w/%d/%s", idx, out.Digest)))
					}
					for _, nc := range out.Results.NewNodeClaims {
						l.Outcome("opened-in:" + nc.NodePoolName)
					}
					for _, v := range viol {
						l.Violation(v.Sig, v.Msg+"  ["+c.String()+fmt.Sprintf(" choices=%v]", run.Choices()), map[string]any{"case": c, "choices": run.Choices(), "trace": env.Hooks.Placed})
					}
					if idx%997 == 3 && len(run.Choices()) > 0 {
						l.Sample(map[string]any{"case": c.String(), "completion_order_choices": run.Choices(), "commit_trace": env.Hooks.Placed, "outcome": out.Digest})
					}
				}
				ex.Explore()
				noteDiverged(l, ex, "prefix")
				l.Transitions += int64(ex.Points)
				if len(digests) > 1 {
					l.Outcome("outcome-depends-on-worker-schedule")
				}
				if ex.Capped {
					l.Outcome("schedule-exploration-capped")
				}
			}
			// ---- price clause: full list vs truncated list
			c.Workers = 1
			full := func(maxIT int) (*SchedEnv, schedOutcome) {
				old := scheduling.MaxInstanceTypes
				scheduling.MaxInstanceTypes = maxIT
				defer func() { scheduling.MaxInstanceTypes = old }()
				env := buildSched(c)
				return env, env.runPass(explore.Replay(nil), 1)
			}
			envF, outF := full(600)
			if outF.Err != nil {
				return
			}
			for _, k := range maxITs {
				_, outK := full(k)
				l.Eval()
				if outK.Err != nil || len(outK.Created) != len(outF.Created) {
					continue // different packing under truncation (minValues): not comparable
				}
				for j := range outF.Created {
					if outF.Created[j] == nil || outK.Created[j] == nil || podNames(outF.Results.NewNodeClaims[j].Pods) != podNames(outK.Results.NewNodeClaims[j].Pods) {
						continue
					}
					fullList, _ := reqValues(outF.Created[j].Spec.Requirements, corev1.LabelInstanceTypeStable)
					kept, _ := reqValues(outK.Created[j].Spec.Requirements, corev1.LabelInstanceTypeStable)
					keptSet := map[string]bool{}
					for _, t := range kept {
						keptSet[t] = true
					}
					desc := fmt.Sprintf("full list %v, MaxInstanceTypes=%d kept %v  [%s]", fullList, k, kept, c.String())
					if len(kept) != min(k, len(fullList)) {
						l.Violation("price order: truncated list has the wrong size", desc, map[string]any{"case": c})
					}
					maxKept := 0.0
					for _, t := range kept {
						if !contains(fullList, t) {
							l.Violation("price order: truncated list is not a subset of the options", desc, map[string]any{"case": c})
						}
						if p := envF.cheapestPrice(outK.Created[j], pickType(envF.Catalog, t)); p > maxKept {
							maxKept = p
						}
					}
					for _, t := range fullList {
						if keptSet[t] {
							continue
						}
						if p := envF.cheapestPrice(outK.Created[j], pickType(envF.Catalog, t)); p < maxKept {
							l.Violation("price order: a cheaper type was dropped in favour of a dearer one", fmt.Sprintf("dropped %s (cheapest compatible offering %.3f) but kept a type costing %.3f; %s", t, p, maxKept, desc), map[string]any{"case": c})
						}
					}
					if len(fullList) > k {
						l.NontrivialH(ev.H(fmt.Sprintf("p/%d/%d/%d", idx, k, j)))
						l.Outcome("list-truncated")
					}
				}
			}
		})
	})
}

func contains(s []string, v string) bool {
	for _, x := range s {
		if x == v {
			return true
		}
	}
	return false
}

var _ = sort.Strings
var _ = strings.Join
