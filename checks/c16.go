package checks

import (
	"fmt"
	"strings"
	"time"

	corev1 "k8s.io/api/core/v1"
	"sigs.k8s.io/controller-runtime/pkg/client"

	v1 "sigs.k8s.io/karpenter/pkg/apis/v1"
	"sigs.k8s.io/karpenter/pkg/cloudprovider"
	"sigs.k8s.io/karpenter/pkg/controllers/node/health"
	"sigs.k8s.io/karpenter/pkg/controllers/nodeclaim/expiration"
	"sigs.k8s.io/karpenter/pkg/controllers/nodeclaim/garbagecollection"
	"sigs.k8s.io/karpenter/pkg/controllers/nodeclaim/lifecycle"
	"sigs.k8s.io/karpenter/pkg/state/nodepoolhealth"

	"verif/internal/enum"
	"verif/internal/ev"
	"verif/internal/explore"
	"verif/world"
)

// C16 — forceful reapers act only on their documented trigger. Four drivers; every state x clock-offset product is run
// fault-free and with one (quick) / two (thorough) injected failures at every API / provider call of the reconcile.

func deletesOf(w *world.World, kind, name string) (attempted, succeeded int) {
	for _, c := range w.Client.Log {
		if c.Verb == "delete" && c.Kind == kind && c.Name == name {
			attempted++
			if c.Err == "" {
				succeeded++
			}
		}
	}
	return
}

func injectedOn(taken []world.Injected, substr string) bool {
	for _, t := range taken {
		if strings.Contains(t.Call, substr) {
			return true
		}
	}
	return false
}

type c16Case struct {
	name string
	n    int64
	run  func(i int64, run *explore.Run, l *ev.Local)
}

var offsets = []time.Duration{-time.Second, 0, time.Second}

func c16Expiration() c16Case {
	expire := []string{"Never", "0s", "10m"}
	return c16Case{name: "expiration", n: enum.Size(len(expire), len(offsets), 2, 2), run: func(i int64, run *explore.Run, l *ev.Local) {
		d := enum.Odo(i, len(expire), len(offsets), 2, 2)
		w := world.New(world.Options{})
		w.CP.Catalog[""] = world.BuildCatalog(K1)
		w.Add(world.NodeClass(), world.NodePool("default"))
		exp := 10 * time.Minute
		created := world.Epoch.Add(-exp).Add(-offsets[d[1]]) // now - created = 10m + offset
		stage := []string{"initialized", "claim-only"}[d[3]]
		nc, _ := w.BuildNode(world.NodeSpec{Name: "n1", Pool: "default", Type: K1[0], Offer: K1[0].Offers[0], Created: created, Deleting: d[2] == 1, Stage: stage})
		nc.Spec.ExpireAfter = v1.MustParseNillableDuration(expire[d[0]])
		w.EnvUpdate(nc)
		taken := w.AttachFaults(run, nil)
		ctrl := expiration.NewController(w.Clock, w.Client, w.CP)
		obj := &v1.NodeClaim{}
		must(w.Raw.Get(w.Ctx, client.ObjectKeyFromObject(nc), obj))
		_, _ = ctrl.Reconcile(w.Ctx, obj)
		att, _ := deletesOf(w, "NodeClaim", nc.Name)
		desc := fmt.Sprintf("expiration: expireAfter=%s age=10m%+v deleting=%v stage=%s faults=%v", expire[d[0]], offsets[d[1]], d[2] == 1, stage, *taken)
		var due bool
		switch expire[d[0]] {
		case "Never":
			due = false
		case "0s":
			due = true
		default:
			due = offsets[d[1]] >= 0
		}
		if att > 0 && !due {
			l.Violation("expiration: deleted before creation+expireAfter or with expiry disabled", desc, map[string]any{"calls": callStrings(w)})
		}
		if att > 0 && d[2] == 1 {
			l.Violation("expiration: delete issued for a NodeClaim that is already deleting", desc, map[string]any{"calls": callStrings(w)})
		}
		if len(*taken) == 0 && due && d[2] == 0 && att == 0 {
			l.Outcome("expiration: due but not deleted in a fault-free run (allowed by the statement; reported for non-vacuity only)")
		}
		l.Outcome(fmt.Sprintf("expiration deleted=%v", att > 0))
		if att > 0 || len(*taken) > 0 {
			l.Nontrivial(desc)
		}
		if i == 7 && len(*taken) == 1 {
			l.Sample(map[string]any{"case": desc, "calls": callStrings(w)})
		}
	}}
}

func callStrings(w *world.World) []string {
	out := make([]string, len(w.Client.Log))
	for i, c := range w.Client.Log {
		out[i] = c.String()
	}
	return out
}

func c16GC() c16Case {
	nodeStates := []string{"absent", "ready", "notready", "duplicate-ready"}
	inst := []string{"listed", "gone", "terminating"}
	return c16Case{name: "garbagecollection", n: enum.Size(2, len(inst), len(nodeStates), 2), run: func(i int64, run *explore.Run, l *ev.Local) {
		d := enum.Odo(i, 2, len(inst), len(nodeStates), 2)
		registered, deleting := d[0] == 1, d[3] == 1
		w := world.New(world.Options{})
		w.CP.Catalog[""] = world.BuildCatalog(K1)
		w.Add(world.NodeClass(), world.NodePool("default"))
		stage := "registered"
		if !registered {
			stage = "unregistered"
		}
		nc, node := w.BuildNode(world.NodeSpec{Name: "n1", Pool: "default", Type: K1[0], Offer: K1[0].Offers[0], Stage: stage, Deleting: deleting, NotReady: nodeStates[d[2]] == "notready"})
		switch nodeStates[d[2]] {
		case "absent":
			w.EnvDelete(node)
		case "duplicate-ready":
			dup := node.DeepCopy()
			dup.Name, dup.UID, dup.ResourceVersion = "n1-dup", "nodeuid-n1-dup", ""
			dup.DeletionTimestamp = nil
			w.Add(dup)
		}
		switch inst[d[1]] {
		case "gone":
			w.CP.Instance(nc.Status.ProviderID).Gone = true
		case "terminating":
			w.CP.Instance(nc.Status.ProviderID).Terminating = true
		}
		taken := w.AttachFaults(run, nil)
		ctrl := garbagecollection.NewController(w.Clock, w.Client, w.CP)
		_, _ = ctrl.Reconcile(w.Ctx)
		att, _ := deletesOf(w, "NodeClaim", nc.Name)
		desc := fmt.Sprintf("gc: registered=%v instance=%s node=%s deleting=%v faults=%v", registered, inst[d[1]], nodeStates[d[2]], deleting, *taken)
		allowed := registered && inst[d[1]] == "gone" && !deleting && (nodeStates[d[2]] == "absent" || nodeStates[d[2]] == "notready" || nodeStates[d[2]] == "duplicate-ready")
		if att > 0 && !allowed {
			l.Violation("gc: deleted although instance listed / node Ready / not registered", desc, map[string]any{"calls": callStrings(w)})
		}
		if att > 0 && injectedOn(*taken, "list Node") {
			l.Violation("gc: deleted although the Node lookup failed", desc+" — whether the Node is absent or not Ready could not be established", map[string]any{"calls": callStrings(w)})
		}
		if att > 0 && (injectedOn(*taken, "cp-list") || injectedOn(*taken, "list NodeClaim")) {
			l.Violation("gc: deleted although a guarding list call failed", desc, map[string]any{"calls": callStrings(w)})
		}
		if len(*taken) == 0 && allowed && nodeStates[d[2]] != "duplicate-ready" && att == 0 {
			l.Outcome("gc: due but not deleted in a fault-free run (allowed by the statement; reported for non-vacuity only)")
		}
		l.Outcome(fmt.Sprintf("gc deleted=%v", att > 0))
		if att > 0 || len(*taken) > 0 {
			l.Nontrivial(desc)
		}
		if i == 13 && len(*taken) == 1 {
			l.Sample(map[string]any{"case": desc, "calls": callStrings(w)})
		}
	}}
}

// c16GCInterleaved: a machine comes up WHILE garbage collection reconciles — between any two of the calls the reconcile
// makes, the instance is created, its NodeClaim becomes Registered and its Node joins (not Ready yet). At the instant of
// any Delete the provider must not list the instance.
func c16GCInterleaved() c16Case {
	nodeStates := []string{"notready", "absent"}
	const maxCalls = 8
	return c16Case{name: "gc-machine-comes-up-during-the-reconcile", n: enum.Size(maxCalls+1, len(nodeStates), 2), run: func(i int64, run *explore.Run, l *ev.Local) {
		d := enum.Odo(i, maxCalls+1, len(nodeStates), 2)
		at := d[0] // before the at-th call (0 = before the reconcile starts)
		w := world.New(world.Options{})
		w.CP.Catalog[""] = world.BuildCatalog(K1)
		w.Add(world.NodeClass(), world.NodePool("default"))
		if d[2] == 1 {
			// a genuinely orphaned NodeClaim next to it (registered, instance gone, node absent): collecting it stays allowed
			onc, onode := w.BuildNode(world.NodeSpec{Name: "orphan", Pool: "default", Type: K1[0], Offer: K1[0].Offers[0], Created: world.Epoch.Add(-time.Hour)})
			w.CP.Instance(onc.Status.ProviderID).Gone = true
			w.EnvDelete(onode)
		}
		comeUp := func() {
			_, node := w.BuildNode(world.NodeSpec{Name: "fresh", Pool: "default", Type: K1[1], Offer: K1[1].Offers[0], Stage: "registered", NotReady: true, Created: world.Epoch.Add(-time.Minute)})
			if nodeStates[d[1]] == "absent" {
				w.EnvDelete(node)
			}
		}
		calls, fired := 0, false
		hook := func(c *world.Call) error {
			calls++
			if !fired && calls == at {
				fired = true
				comeUp()
			}
			return nil
		}
		if at == 0 {
			fired = true
			comeUp()
		}
		w.Client.Hook, w.CP.Hook = hook, hook
		var bad []string
		w.Client.After = func(c *world.Call) {
			if c.Verb == "delete" && c.Kind == "NodeClaim" && c.Name == "nc-fresh" {
				if nc := w.GetNodeClaim("nc-fresh"); nc != nil {
					if inst := w.CP.Instance(nc.Status.ProviderID); inst != nil && !inst.Gone {
						bad = append(bad, "Delete of NodeClaim nc-fresh requested while the provider lists its instance "+nc.Status.ProviderID)
					}
				}
			}
		}
		ctrl := garbagecollection.NewController(w.Clock, w.Client, w.CP)
		_, _ = ctrl.Reconcile(w.Ctx)
		l.Eval()
		desc := fmt.Sprintf("gc: the machine of NodeClaim nc-fresh comes up (instance created, NodeClaim Registered, Node %s) before call #%d of the reconcile (%d calls made), orphan present=%v", nodeStates[d[1]], at, calls, d[2] == 1)
		for _, b := range bad {
			l.Violation("gc: deleted although instance listed / node Ready / not registered", b+"  ["+desc+"]", map[string]any{"calls": callStrings(w)})
		}
		l.Outcome(fmt.Sprintf("gc(interleaved) fired=%v deleted-fresh=%v", fired, len(bad) > 0))
		if fired && at > 0 {
			l.Nontrivial(desc)
		}
		if i == 5 {
			l.Sample(map[string]any{"case": desc, "calls": callStrings(w)})
		}
	}}
}

func c16Liveness() c16Case {
	kinds := []string{"launch-unknown", "launched-not-registered", "registered"}
	base := []time.Duration{5 * time.Minute, 15 * time.Minute}
	return c16Case{name: "liveness", n: enum.Size(len(kinds), len(base), len(offsets)), run: func(i int64, run *explore.Run, l *ev.Local) {
		d := enum.Odo(i, len(kinds), len(base), len(offsets))
		w := world.New(world.Options{})
		w.CP.Catalog[""] = world.BuildCatalog(K1)
		np := world.NodePool("default")
		w.Add(world.NodeClass(), np)
		since := world.Epoch.Add(-base[d[1]]).Add(-offsets[d[2]]) // now - since = base + offset
		stage := map[string]string{"launch-unknown": "claim-only", "launched-not-registered": "claim-only", "registered": "registered"}[kinds[d[0]]]
		nc, _ := w.BuildNode(world.NodeSpec{Name: "n1", Pool: "default", Type: K1[0], Offer: K1[0].Offers[0], Stage: stage, Created: since})
		t := true
		nc.OwnerReferences = append(nc.OwnerReferences, metaOwner("NodePool", np.Name, string(np.UID), &t))
		if kinds[d[0]] == "launch-unknown" {
			nc.Status.ProviderID = ""
			nc.StatusConditions().SetUnknownWithReason(v1.ConditionTypeLaunched, "LaunchFailed", "injected earlier failure")
			w.CP.Instances = nil
		}
		for k := range nc.Status.Conditions {
			nc.Status.Conditions[k].LastTransitionTime = metaT(since)
		}
		w.EnvUpdate(nc)
		// keep the provider failing so a not-yet-launched claim stays unlaunched during this reconcile
		taken := w.AttachFaults(run, nil)
		if kinds[d[0]] == "launch-unknown" {
			inner := w.CP.Hook
			w.CP.Hook = func(c *world.Call) error {
				if c.Verb == "cp-create" {
					return fmt.Errorf("provider still failing")
				}
				return inner(c)
			}
		}
		ctrl := lifecycle.NewController(w.Clock, w.Client, w.CP, w.Rec, nodepoolhealth.NewState(), nil)
		obj := &v1.NodeClaim{}
		must(w.Raw.Get(w.Ctx, client.ObjectKeyFromObject(nc), obj))
		_, _ = ctrl.Reconcile(w.Ctx, obj)
		att, _ := deletesOf(w, "NodeClaim", nc.Name)
		age := base[d[1]] + offsets[d[2]]
		desc := fmt.Sprintf("liveness: %s for %v faults=%v", kinds[d[0]], age, *taken)
		var allowed bool
		switch kinds[d[0]] {
		case "launch-unknown":
			allowed = age >= 5*time.Minute
		case "launched-not-registered":
			allowed = age >= 15*time.Minute
		}
		if att > 0 && !allowed {
			l.Violation("liveness: deleted before the launch / registration timeout", desc, map[string]any{"calls": callStrings(w)})
		}
		if len(*taken) == 0 && allowed && att == 0 {
			l.Outcome("liveness: due but not deleted in a fault-free run (allowed by the statement; reported for non-vacuity only)")
		}
		l.Outcome(fmt.Sprintf("liveness deleted=%v", att > 0))
		if att > 0 || len(*taken) > 0 {
			l.Nontrivial(desc)
		}
		if i == 4 && len(*taken) == 0 {
			l.Sample(map[string]any{"case": desc, "calls": callStrings(w)})
		}
	}}
}

func c16Repair(maxN int) c16Case {
	tol := 30 * time.Minute
	type cfg struct{ n, u int }
	var cfgs []cfg
	for n := 1; n <= maxN; n++ {
		for u := 1; u <= n; u++ {
			cfgs = append(cfgs, cfg{n, u})
		}
	}
	// othersRecent: the OTHER unhealthy nodes turned unhealthy only 10 minutes ago (still inside their own toleration):
	// they are unhealthy all the same and count towards the 20% circuit breaker
	return c16Case{name: "node-repair", n: enum.Size(len(cfgs), len(offsets), 2), run: func(i int64, run *explore.Run, l *ev.Local) {
		d := enum.Odo(i, len(cfgs), len(offsets), 2)
		othersRecent := d[2] == 1
		c := cfgs[d[0]]
		w := world.New(world.Options{NodeRepair: true})
		w.CP.Catalog[""] = world.BuildCatalog(K1)
		w.CP.Repair = []cloudprovider.RepairPolicy{{ConditionType: "BadNode", ConditionStatus: corev1.ConditionFalse, TolerationDuration: tol}}
		w.Add(world.NodeClass(), world.NodePool("default"))
		since := world.Epoch.Add(-tol).Add(-offsets[d[1]])
		var target *corev1.Node
		var targetNC *v1.NodeClaim
		for k := 0; k < c.n; k++ {
			nc, node := w.BuildNode(world.NodeSpec{Name: fmt.Sprintf("n%d", k), Pool: "default", Type: K1[0], Offer: K1[0].Offers[0]})
			if k < c.u {
				at := since
				if k > 0 && othersRecent {
					at = world.Epoch.Add(-10 * time.Minute)
				}
				node.Status.Conditions = append(node.Status.Conditions, corev1.NodeCondition{Type: "BadNode", Status: corev1.ConditionFalse, LastTransitionTime: metaT(at)})
				w.EnvUpdate(node)
			}
			if k == 0 {
				target, targetNC = node, nc
			}
		}
		taken := w.AttachFaults(run, nil)
		ctrl := health.NewController(w.Client, w.CP, w.Clock, w.Rec)
		obj := &corev1.Node{}
		must(w.Raw.Get(w.Ctx, client.ObjectKeyFromObject(target), obj))
		_, _ = ctrl.Reconcile(w.Ctx, obj)
		att, _ := deletesOf(w, "NodeClaim", targetNC.Name)
		threshold := (c.n + 4) / 5 // ceil(0.2 n)
		lasted := offsets[d[1]] >= 0
		desc := fmt.Sprintf("repair: %d of %d nodes unhealthy, the reconciled one for 30m%+v, the others %s (allowed %d) faults=%v", c.u, c.n, offsets[d[1]], map[bool]string{false: "equally long", true: "for 10m only"}[othersRecent], threshold, *taken)
		if att > 0 && !lasted {
			l.Violation("repair: deleted before the toleration elapsed", desc, map[string]any{"calls": callStrings(w)})
		}
		if att > 0 && c.u > threshold {
			l.Violation("repair: deleted although more than 20% of the pool is unhealthy", desc, map[string]any{"calls": callStrings(w)})
		}
		if att > 0 && injectedOn(*taken, "list Node") {
			l.Violation("repair: deleted although the node list failed", desc, map[string]any{"calls": callStrings(w)})
		}
		if len(*taken) == 0 && lasted && c.u <= threshold && att == 0 {
			l.Outcome("repair: due but not deleted in a fault-free run (allowed by the statement; reported for non-vacuity only)")
		}
		l.Outcome(fmt.Sprintf("repair deleted=%v", att > 0))
		if att > 0 || len(*taken) > 0 {
			l.Nontrivial(desc)
		}
		if i == 5 && len(*taken) == 0 {
			l.Sample(map[string]any{"case": desc, "calls": callStrings(w)})
		}
	}}
}

// c16RepairTwoPolicies: the provider declares two repair policies with different tolerations and the node may match
// both, with different transition times: a Delete needs SOME condition that has lasted ITS OWN policy's toleration.
func c16RepairTwoPolicies() c16Case {
	type pol struct {
		typ corev1.NodeConditionType
		tol time.Duration
	}
	pols := []pol{{"BadNode", 30 * time.Minute}, {"AcceleratedHardwareReady", 10 * time.Minute}}
	// per condition: absent, healthy, or unhealthy for (toleration + off)
	offs := []time.Duration{-5 * time.Minute, -time.Second, 0, time.Second}
	states := 2 + len(offs)
	pools := []struct{ n, u int }{{5, 1}, {5, 2}, {1, 1}}
	return c16Case{name: "node-repair-two-policies", n: enum.Size(len(pools), states, states), run: func(i int64, run *explore.Run, l *ev.Local) {
		d := enum.Odo(i, len(pools), states, states)
		pc := pools[d[0]]
		w := world.New(world.Options{NodeRepair: true})
		w.CP.Catalog[""] = world.BuildCatalog(K1)
		for _, p := range pols {
			w.CP.Repair = append(w.CP.Repair, cloudprovider.RepairPolicy{ConditionType: p.typ, ConditionStatus: corev1.ConditionFalse, TolerationDuration: p.tol})
		}
		w.Add(world.NodeClass(), world.NodePool("default"))
		var target *corev1.Node
		var targetNC *v1.NodeClaim
		justified, unhealthyTarget := false, false
		var descs []string
		for k := 0; k < pc.n; k++ {
			nc, node := w.BuildNode(world.NodeSpec{Name: fmt.Sprintf("n%d", k), Pool: "default", Type: K1[0], Offer: K1[0].Offers[0]})
			if k == 0 {
				for j, p := range pols {
					switch st := d[1+j]; {
					case st == 0:
						descs = append(descs, string(p.typ)+"=absent")
					case st == 1:
						node.Status.Conditions = append(node.Status.Conditions, corev1.NodeCondition{Type: p.typ, Status: corev1.ConditionTrue, LastTransitionTime: metaT(world.Epoch.Add(-2 * time.Hour))})
						descs = append(descs, string(p.typ)+"=healthy")
					default:
						off := offs[st-2]
						node.Status.Conditions = append(node.Status.Conditions, corev1.NodeCondition{Type: p.typ, Status: corev1.ConditionFalse, LastTransitionTime: metaT(world.Epoch.Add(-p.tol).Add(-off))})
						descs = append(descs, fmt.Sprintf("%s=unhealthy for its toleration %v%+v", p.typ, p.tol, off))
						unhealthyTarget = true
						if off >= 0 {
							justified = true
						}
					}
				}
				w.EnvUpdate(node)
				target, targetNC = node, nc
			} else if k < pc.u {
				node.Status.Conditions = append(node.Status.Conditions, corev1.NodeCondition{Type: "BadNode", Status: corev1.ConditionFalse, LastTransitionTime: metaT(world.Epoch.Add(-2 * time.Hour))})
				w.EnvUpdate(node)
			}
		}
		unhealthy := pc.u
		if !unhealthyTarget {
			unhealthy--
		}
		taken := w.AttachFaults(run, nil)
		ctrl := health.NewController(w.Client, w.CP, w.Clock, w.Rec)
		obj := &corev1.Node{}
		must(w.Raw.Get(w.Ctx, client.ObjectKeyFromObject(target), obj))
		_, _ = ctrl.Reconcile(w.Ctx, obj)
		att, _ := deletesOf(w, "NodeClaim", targetNC.Name)
		threshold := (pc.n + 4) / 5
		desc := fmt.Sprintf("repair/two policies: node with %v in a pool of %d with %d unhealthy (allowed %d) faults=%v", descs, pc.n, unhealthy, threshold, *taken)
		if att > 0 && !justified {
			l.Violation("repair: deleted before the toleration elapsed", desc+": no condition of the node has lasted its own policy's toleration", map[string]any{"calls": callStrings(w)})
		}
		if att > 0 && unhealthy > threshold {
			l.Violation("repair: deleted although more than 20% of the pool is unhealthy", desc, map[string]any{"calls": callStrings(w)})
		}
		if att > 0 && injectedOn(*taken, "list Node") {
			l.Violation("repair: deleted although the node list failed", desc, map[string]any{"calls": callStrings(w)})
		}
		l.Outcome(fmt.Sprintf("repair(two policies) deleted=%v", att > 0))
		if att > 0 || len(*taken) > 0 {
			l.Nontrivial(desc)
		}
		if i == 17 && len(*taken) == 0 {
			l.Sample(map[string]any{"case": desc, "calls": callStrings(w)})
		}
	}}
}


// c16RepairRetry: a repair that was approved once is retried later (the Delete failed, or the controller died between
// the termination-timestamp patch and the Delete); meanwhile more nodes of the pool turned unhealthy and the clock moved.
// The retry has to pass the 20% breaker again with the pool as it is THEN.
func c16RepairRetry() c16Case {
	tol := 30 * time.Minute
	pools := []int{5, 10}
	extras := []int{0, 1, 2}
	steps := []time.Duration{0, 2 * time.Second, 6 * time.Minute}
	return c16Case{name: "node-repair-retry", n: enum.Size(len(pools), len(extras), len(steps)), run: func(i int64, run *explore.Run, l *ev.Local) {
		d := enum.Odo(i, len(pools), len(extras), len(steps))
		n, extra, step := pools[d[0]], extras[d[1]], steps[d[2]]
		threshold := (n + 4) / 5
		w := world.New(world.Options{NodeRepair: true})
		w.CP.Catalog[""] = world.BuildCatalog(K1)
		w.CP.Repair = []cloudprovider.RepairPolicy{{ConditionType: "BadNode", ConditionStatus: corev1.ConditionFalse, TolerationDuration: tol}}
		w.Add(world.NodeClass(), world.NodePool("default"))
		var target *corev1.Node
		var targetNC *v1.NodeClaim
		var nodes []*corev1.Node
		bad := func(node *corev1.Node, at time.Time) {
			node.Status.Conditions = append(node.Status.Conditions, corev1.NodeCondition{Type: "BadNode", Status: corev1.ConditionFalse, LastTransitionTime: metaT(at)})
			w.EnvUpdate(node)
		}
		for k := 0; k < n; k++ {
			nc, node := w.BuildNode(world.NodeSpec{Name: fmt.Sprintf("n%d", k), Pool: "default", Type: K1[0], Offer: K1[0].Offers[0]})
			nodes = append(nodes, node)
			if k < threshold { // exactly as many unhealthy nodes as the breaker allows
				bad(node, world.Epoch.Add(-tol).Add(-time.Minute))
			}
			if k == 0 {
				target, targetNC = node, nc
			}
		}
		unhealthy := threshold
		taken := w.AttachFaults(run, nil)
		ctrl := health.NewController(w.Client, w.CP, w.Clock, w.Rec)
		var descs []string
		reconcile := func(label string) {
			before := len(w.Client.Log)
			obj := &corev1.Node{}
			if err := w.Raw.Get(w.Ctx, client.ObjectKeyFromObject(target), obj); err != nil {
				return
			}
			_, _ = ctrl.Reconcile(w.Ctx, obj)
			att := 0
			for _, c := range w.Client.Log[before:] {
				if c.Verb == "delete" && c.Kind == "NodeClaim" && c.Name == targetNC.Name {
					att++
				}
			}
			desc := fmt.Sprintf("repair retry (%s): pool of %d, %d unhealthy (allowed %d), clock +%v since the first attempt, faults=%v", label, n, unhealthy, threshold, w.Clock.Now().Sub(world.Epoch), *taken)
			descs = append(descs, desc)
			if att > 0 && unhealthy > threshold {
				l.Violation("repair: deleted although more than 20% of the pool is unhealthy", desc, map[string]any{"calls": callStrings(w)})
			}
			l.Outcome(fmt.Sprintf("repair-retry %s deleted=%v over-threshold=%v", label, att > 0, unhealthy > threshold))
		}
		reconcile("first attempt")
		for k := 0; k < extra; k++ {
			obj := &corev1.Node{}
			must(w.Raw.Get(w.Ctx, client.ObjectKeyFromObject(nodes[threshold+k]), obj))
			bad(obj, w.Clock.Now())
			unhealthy++
		}
		w.Clock.Step(step)
		reconcile("retry")
		if len(*taken) > 0 {
			l.Nontrivial(strings.Join(descs, " | "))
		}
		if i == 4 && len(*taken) == 0 {
			l.Sample(map[string]any{"case": descs, "calls": callStrings(w)})
		}
	}}
}

func init() {
	register("C16", "fault_enumeration", func(r *ev.Rec) {
		bound, maxN := 2, 10
		if r.Tier == "thorough" {
			bound, maxN = 3, 10
		}
		cases := []c16Case{c16Expiration(), c16GC(), c16GCInterleaved(), c16Liveness(), c16Repair(maxN), c16RepairTwoPolicies(), c16RepairRetry()}
		r.Rule = fmt.Sprintf("four drivers (expiration, garbage collection, liveness via the lifecycle controller, node repair) over full state x clock-offset products (offsets -1s/0/+1s around each threshold; repair pools of 1..%d nodes with every unhealthy count, the other unhealthy nodes unhealthy equally long or only recently; garbage collection with a machine coming up between any two calls of the reconcile; a provider with two repair policies of different tolerations and a node matching none / one / both, each condition absent / healthy / unhealthy for its own toleration -5m/-1s/0/+1s; a repair retried after 0s/2s/6m while 0..2 more nodes of a pool of 5/10 turned unhealthy); "+
			"each state is reconciled once fault-free and once for every way of failing <=%d of its API / provider calls (transient 500, conflict on optimistic-lock patches, provider error). A Delete of the NodeClaim must be justified by the documented trigger computed from the scenario parameters. "+
			"non-trivial = distinct (state, fault set) with a delete or an injected fault", maxN, bound)
		r.Assumptions = []string{"duplicate Nodes for one NodeClaim are enumerated but a delete there is not judged (the code documents it as an invalid state)", "garbage collection is driven with one NodeClaim so that its client-go fan-out has a single worker"}
		for _, c := range cases {
			c := c
			enum.Run(r, c.n, func(i int64, l *ev.Local) {
				ex := &explore.Explorer{Bound: bound, MaxExecs: 5000}
				ex.Exec = func(run *explore.Run) {
					l.Eval()
					l.Traces++
					c.run(i, run, l)
				}
				ex.Explore()
				noteDiverged(l, ex, "prefix")
				l.Transitions += int64(ex.Points)
				if ex.Capped {
					l.Outcome("fault-exploration-capped")
				}
			})
		}
	})
}
