package checks

import (
	"fmt"
	"reflect"
	"sort"
	"strings"
	"time"
	"unsafe"

	corev1 "k8s.io/api/core/v1"

	v1 "sigs.k8s.io/karpenter/pkg/apis/v1"
	"sigs.k8s.io/karpenter/pkg/controllers/disruption"
	"sigs.k8s.io/karpenter/pkg/controllers/nodeclaim/lifecycle"
	"sigs.k8s.io/karpenter/pkg/controllers/provisioning"
	"sigs.k8s.io/karpenter/pkg/controllers/state"
	"sigs.k8s.io/karpenter/pkg/state/nodepoolhealth"

	"verif/internal/enum"
	"verif/internal/ev"
	"verif/internal/explore"
	"verif/oracle"
	"verif/world"
)

// C08 — replacements are ready before removal; failed actions roll back; no node is the subject of two actions.

type c08Scenario struct {
	name    string
	world   func() dWorld
	methods []string
	fanout  bool // the command has >1 candidate or replacement: its calls fan out over client-go goroutines whose order
	// the harness does not own, so per-call fault injection (which needs a stable call order) is off for it
}

func onlyM(np *v1.NodePool) {
	np.Spec.Template.Spec.Requirements = append(np.Spec.Template.Spec.Requirements, oracle.R(corev1.LabelInstanceTypeStable, corev1.NodeSelectorOpIn, "m"))
}

var c08Scenarios = []c08Scenario{
	{"drift-1-to-1", func() dWorld {
		return dWorld{catalog: K1, pools: []*v1.NodePool{world.NodePool("default")}, nodes: []dNode{
			{name: "a", pool: "default", typ: "m", zone: "a", ct: "on-demand", drifted: true, pods: []dPod{{name: "p1", cpu: 3000}}}}}
	}, []string{"Drift"}, false},
	{"multi-2-to-1", func() dWorld {
		return dWorld{catalog: K1, pools: []*v1.NodePool{world.NodePool("default")}, nodes: []dNode{
			{name: "a", pool: "default", typ: "m", zone: "a", ct: "on-demand", pods: []dPod{{name: "p1", cpu: 1500}}},
			{name: "b", pool: "default", typ: "m", zone: "a", ct: "on-demand", pods: []dPod{{name: "p2", cpu: 1500}}}}}
	}, []string{"MultiNodeConsolidation"}, true},
	{"emptiness-delete-only", func() dWorld {
		return dWorld{catalog: K1, pools: []*v1.NodePool{world.NodePool("default")}, nodes: []dNode{
			{name: "a", pool: "default", typ: "m", zone: "a", ct: "on-demand"},
			{name: "b", pool: "default", typ: "m", zone: "a", ct: "on-demand", pods: []dPod{{name: "p2", cpu: 500}}}}}
	}, []string{"Emptiness"}, false},
	{"single-delete-onto-b", func() dWorld {
		return dWorld{catalog: K1, pools: []*v1.NodePool{world.NodePool("default")}, nodes: []dNode{
			{name: "a", pool: "default", typ: "l", zone: "a", ct: "on-demand", pods: []dPod{{name: "p1", cpu: 500}}},
			{name: "b", pool: "default", typ: "m", zone: "a", ct: "on-demand", consolidatable: "false", pods: []dPod{{name: "p2", cpu: 500}}}}}
	}, []string{"SingleNodeConsolidation"}, false},
	{"drift-1-to-2", func() dWorld {
		return dWorld{catalog: K1, pools: []*v1.NodePool{world.NodePool("default", onlyM)}, nodes: []dNode{
			{name: "a", pool: "default", typ: "l", zone: "a", ct: "on-demand", drifted: true, pods: []dPod{{name: "p1", cpu: 3000}, {name: "p2", cpu: 3000}}}}}
	}, []string{"Drift"}, true},
}

type c08Run struct {
	env       *DEnv
	sc        c08Scenario
	history   []string
	viol      []c01Violation
	cmds      []*disruption.Command // every command ever started
	restarted bool
	life      *lifecycle.Controller
	deletedBy map[string]string // candidate NodeClaim name -> who deleted it ("queue" or env actor)
	// deletedByCmd: the live command the queue's Delete is attributed to
	deletedByCmd map[string]*disruption.Command
	everInit     map[string]bool // replacement name -> it reported Initialized at the end of some earlier step
	latched      bool
	skipSync     bool // the cluster cache is not brought up to date after this step (informer lag of one step)
	// work: the orchestration queue's work items — NodeClaims for which StartCommand pushed an event into the queue's
	// source channel and whose reconcile has not finished without a requeue yet. The controller reconciles nothing else.
	work map[string]bool
	// workModelOff: the source channel could not be observed (refactored internals): every queue entry counts as work
	workModelOff bool
}

// drainQueueSource plays controller-runtime's channel source: it takes the events StartCommand pushed into the queue's
// (unexported) source channel and turns them into work items.
func (x *c08Run) drainQueueSource() {
	if x.work == nil {
		x.work = map[string]bool{}
	}
	f := reflect.ValueOf(x.env.Queue).Elem().FieldByName("source")
	if !f.IsValid() || f.Kind() != reflect.Chan {
		// the queue's internals were refactored: fall back to the coarser model in which every entry of the queue is a
		// work item (weaker, never alarming), and say so in the evidence
		x.workModelOff = true
		return
	}
	ch := reflect.NewAt(f.Type(), unsafe.Pointer(f.UnsafeAddr())).Elem()
	for {
		v, ok := ch.TryRecv()
		if !ok {
			return
		}
		obj := v
		if v.Kind() == reflect.Struct {
			obj = v.FieldByName("Object")
		}
		if !obj.IsValid() || !obj.CanInterface() {
			x.workModelOff = true
			return
		}
		if nc, ok := obj.Interface().(*v1.NodeClaim); ok && nc != nil {
			x.work[nc.Name] = true
		} else {
			x.workModelOff = true
			return
		}
	}
}

// isWork: the controller will reconcile the command whose first candidate is this NodeClaim.
func (x *c08Run) isWork(name string) bool { return x.workModelOff || x.work[name] }

func (x *c08Run) newControllers() {
	w := x.env.W
	x.life = lifecycle.NewController(w.Clock, w.Client, w.CP, w.Rec, nodepoolhealth.NewState(), nil)
}

// restart drops all in-memory state: cluster cache (re-synced from the API), provisioner, queue, controllers.
func (x *c08Run) restart() {
	w := x.env.W
	w.Cluster = state.NewCluster(w.Clock, w.Client, w.CP)
	w.Prov = provisioning.NewProvisioner(w.Client, w.Rec, w.CP, w.Cluster, w.Clock, w.DeviceAlloc, w.VPods)
	w.RebindInformers()
	w.SyncCluster()
	x.env.Queue = disruption.NewQueue(w.Client, w.Rec, w.Cluster, w.Clock, w.Prov)
	x.work = map[string]bool{}
	x.newControllers()
	x.restarted = true
}

func (x *c08Run) liveCommands() []*disruption.Command {
	out := x.env.Queue.GetCommands()
	sort.Slice(out, func(i, j int) bool { return cmdString(out[i]) < cmdString(out[j]) })
	return out
}

func (x *c08Run) replacementNames() []string {
	var out []string
	for _, c := range x.cmds {
		for _, r := range c.Replacements {
			if r.Name != "" {
				out = append(out, r.Name)
			}
		}
	}
	sort.Strings(out)
	return out
}

func (x *c08Run) after(c *world.Call) {
	w := x.env.W
	if c.Verb != "delete" || c.Kind != "NodeClaim" {
		return
	}
	// Attribute the Delete to the command(s) that hold this candidate NOW (a command dropped by a restart is gone; a
	// later command of the new queue may legitimately hold the same node). No live holder => nobody may delete it.
	liveSet := map[*disruption.Command]bool{}
	for _, lc := range x.env.Queue.GetCommands() {
		liveSet[lc] = true
	}
	isCandidate, held := false, false
	for _, cmd := range x.cmds {
		for _, cn := range cmd.Candidates {
			if cn.NodeClaim == nil || cn.NodeClaim.Name != c.Name {
				continue
			}
			isCandidate = true
			if !liveSet[cmd] {
				continue
			}
			held = true
			var notReady []string
			for _, r := range cmd.Replacements {
				nc := w.GetNodeClaim(r.Name)
				switch {
				case nc != nil && nc.StatusConditions().Get(v1.ConditionTypeInitialized).IsTrue():
				case r.Name != "" && x.everInit[r.Name]:
					// The queue latches a replacement's readiness (Replacement.Initialized, named by the property's anchors):
					// a replacement that REPORTED Initialized and disappeared afterwards still counts. Reported, not judged.
					x.latched = true
				case r.Name == "" || nc == nil:
					notReady = append(notReady, fmt.Sprintf("replacement %q does not exist", r.Name))
				default:
					notReady = append(notReady, "replacement "+r.Name+" is not Initialized")
				}
			}
			if len(notReady) > 0 {
				x.viol = append(x.viol, c01Violation{"candidate deleted before every replacement is initialized", fmt.Sprintf("Delete of candidate %s requested while %s (command %s)", c.Name, strings.Join(notReady, "; "), cmdString(cmd))})
			}
			if c.Err == "" {
				x.deletedBy[c.Name] = "queue"
				x.deletedByCmd[c.Name] = cmd
			}
		}
	}
	if isCandidate && !held {
		x.viol = append(x.viol, c01Violation{"candidate deleted by an action that is no longer in flight", fmt.Sprintf("Delete of candidate %s requested although no command holding it is in the orchestration queue (restarted=%v)", c.Name, x.restarted)})
		if c.Err == "" {
			x.deletedBy[c.Name] = "queue"
		}
	}
}

// startRound runs one disruption round. A command started for a node that is still held by a command that was in flight
// when the round began makes that node the subject of two concurrent actions (the queue's map would silently drop the
// older command, so this is judged here and not from the map).
func (x *c08Run) startRound() {
	holder := map[string]*disruption.Command{}
	for _, lc := range x.env.Queue.GetCommands() {
		for _, cn := range lc.Candidates {
			holder[cn.ProviderID()] = lc
		}
	}
	cmds, _ := x.env.round(x.sc.methods...)
	for _, c := range cmds {
		for _, cn := range c.Candidates {
			if old, ok := holder[cn.ProviderID()]; ok && old != c {
				x.viol = append(x.viol, c01Violation{"node is the subject of two concurrent actions", fmt.Sprintf("command %s was started for %s while command %s, which holds the same node, was still in flight", cmdString(c), cn.Name(), cmdString(old))})
			}
		}
	}
	x.cmds = append(x.cmds, cmds...)
}

func (x *c08Run) checkDisjoint() {
	seen := map[string]string{}
	for _, cmd := range x.liveCommands() {
		for _, cn := range cmd.Candidates {
			if other, ok := seen[cn.ProviderID()]; ok && other != cmd.ID.String() {
				x.viol = append(x.viol, c01Violation{"node is the subject of two concurrent actions", fmt.Sprintf("provider id %s is a candidate of two live commands", cn.ProviderID())})
			}
			seen[cn.ProviderID()] = cmd.ID.String()
		}
	}
}

func (x *c08Run) run(run *explore.Run, steps int, faults bool) {
	env := x.env
	w := env.W
	var taken *[]world.Injected
	if faults {
		taken = w.AttachFaultsOpt(run, nil, true)
	}
	w.Client.After = x.after
	x.newControllers()
	started := false
	done := map[string]bool{}
	for s := 0; s < steps; s++ {
		type act = action
		var script []act
		if !started {
			script = append(script, act{"disruption-round", func() {
				x.startRound()
				started = true
			}})
		}
		for _, name := range x.replacementNames() {
			name := name
			if nc := w.GetNodeClaim(name); nc != nil && !nc.StatusConditions().Get(v1.ConditionTypeInitialized).IsTrue() {
				script = append(script, act{"lifecycle:" + name, func() { _, _ = x.life.Reconcile(w.Ctx, w.GetNodeClaim(name)) }})
				if nc.Status.ProviderID != "" && w.GetNode("node-"+name) == nil && w.CP.Instance(nc.Status.ProviderID) != nil {
					script = append(script, act{"kubelet-brings-up:" + name, func() {
						cur := w.GetNodeClaim(name)
						w.KubeletRegister(cur, world.RegisterOpts{})
						w.KubeletReady("node-" + name)
					}})
				}
			}
		}
		x.drainQueueSource()
		for _, cmd := range x.liveCommands() {
			cmd := cmd
			first := cmd.Candidates[0].NodeClaim
			if !x.isWork(first.Name) {
				continue // no event was ever pushed for this entry: the controller will never look at it
			}
			script = append(script, act{"queue:" + first.Name, func() {
				obj := w.GetNodeClaim(first.Name)
				if obj == nil {
					obj = first
				}
				res, err := env.Queue.Reconcile(w.Ctx, obj)
				if err == nil && res.RequeueAfter == 0 && !res.Requeue { //nolint:staticcheck
					delete(x.work, first.Name)
				}
			}})
		}
		script = append(script, act{"clock+2s", func() { w.Clock.Step(2 * time.Second) }})
		var scripted act
		for _, a := range script {
			if !done[a.name] {
				scripted = a
				break
			}
		}
		menu := []act{scripted}
		for _, a := range script {
			if a.name != scripted.name {
				menu = append(menu, a)
			}
		}
		// deviations
		if started {
			menu = append(menu, act{"clock+11m", func() { w.Clock.Step(11 * time.Minute) }})
			menu = append(menu, act{"controller-restart", func() { x.restart() }})
			menu = append(menu, act{"second-disruption-round", func() {
				x.startRound()
			}})
			for _, name := range x.replacementNames() {
				name := name
				if nc := w.GetNodeClaim(name); nc != nil {
					menu = append(menu, act{"replacement-vanishes:" + name, func() {
						w.EnvDelete(w.GetNodeClaim(name))
						if n := w.GetNode("node-" + name); n != nil {
							w.EnvDelete(n)
						}
					}})
					// ... the same, but the cluster cache learns about it one step later (informer lag): the next reconcile sees
					// NotFound in the API while the cache still tracks the NodeClaim
					menu = append(menu, act{"replacement-vanishes-unobserved:" + name, func() {
						w.EnvDelete(w.GetNodeClaim(name))
						if n := w.GetNode("node-" + name); n != nil {
							w.EnvDelete(n)
						}
						x.skipSync = true
					}})
				}
			}
			for _, cmd := range x.liveCommands() {
				for _, cn := range cmd.Candidates {
					name := cn.NodeClaim.Name
					if nc := w.GetNodeClaim(name); nc != nil && nc.DeletionTimestamp == nil {
						menu = append(menu, act{"other-actor-deletes-candidate:" + name, func() {
							cur := w.GetNodeClaim(name)
							dt := metaT(w.Clock.Now())
							cur.DeletionTimestamp = &dt
							w.EnvUpdate(cur)
							x.deletedBy[name] = "other-actor"
						}})
					}
				}
			}
		}
		k := run.Choose("step", len(menu), nil)
		if k == 0 {
			done[scripted.name] = true
			if scripted.name == "clock+2s" {
				done = map[string]bool{}
			}
		}
		x.history = append(x.history, menu[k].name)
		menu[k].do()
		w.ClearPersistentFaults()
		if !x.skipSync {
			w.SyncCluster()
		}
		x.skipSync = false
		x.checkDisjoint()
		for _, name := range x.replacementNames() {
			if nc := w.GetNodeClaim(name); nc != nil && nc.StatusConditions().Get(v1.ConditionTypeInitialized).IsTrue() {
				x.everInit[name] = true
			}
		}
		if started && len(x.liveCommands()) == 0 && k == 0 && scripted.name == "clock+2s" {
			break
		}
	}
	if taken != nil {
		for _, f := range *taken {
			x.history = append(x.history, "fault:"+f.Call+"="+f.Fault)
		}
	}
	// ---- settle fault-free: two cleanup rounds of the disruption controller without methods
	w.Client.Hook, w.CP.Hook = nil, nil
	for i := 0; i < 3; i++ {
		// replacements that are being deleted finish terminating (real lifecycle finalizer; their instance, if any,
		// goes away): a NodeClaim stuck without a provider id would keep Cluster.Synced false and with it the
		// controller's stale-taint cleanup, which is an artefact of stopping the history, not of the code
		for _, name := range x.replacementNames() {
			if nc := w.GetNodeClaim(name); nc != nil && nc.DeletionTimestamp != nil {
				if n := w.GetNode("node-" + name); n != nil {
					w.EnvDelete(n)
				}
				if nc.Status.ProviderID != "" {
					w.InstanceGone(nc.Status.ProviderID)
				}
				_, _ = x.life.Reconcile(w.Ctx, nc)
				w.SyncCluster()
			} else if nc != nil && nc.Status.ProviderID == "" {
				// an orphaned replacement whose launch failed transiently is launched by the (now fault-free) retry
				_, _ = x.life.Reconcile(w.Ctx, nc)
				w.SyncCluster()
			}
		}
		_, _ = env.round()
		w.SyncCluster()
	}
	live := map[*disruption.Command]bool{}
	for _, c := range x.liveCommands() {
		live[c] = true
	}
	for _, cmd := range x.cmds {
		if live[cmd] || cmd.Succeeded {
			continue
		}
		// the action ended on the failure path
		for _, cn := range cmd.Candidates {
			name := cn.NodeClaim.Name
			if x.deletedBy[name] == "queue" && x.deletedByCmd[name] == cmd {
				x.viol = append(x.viol, c01Violation{"failed action deleted a candidate", fmt.Sprintf("command %s ended unsuccessfully but candidate %s was deleted by the queue", cmdString(cmd), name)})
			}
			if x.deletedBy[name] != "" {
				continue // deleted by another actor: it is not expected to return to service
			}
			nc := w.GetNodeClaim(name)
			node := w.GetNode(cn.Node.Name)
			if nc == nil || node == nil || nc.DeletionTimestamp != nil {
				continue
			}
			// a later command in flight may legitimately hold the node again (the general clause below covers a queue entry
			// that belongs to no command in flight)
			if env.Queue.HasAny(cn.ProviderID()) {
				continue
			}
			var why []string
			for _, t := range node.Spec.Taints {
				if t.Key == v1.DisruptedTaintKey {
					why = append(why, "the disruption taint is still on the node")
				}
			}
			if nc.StatusConditions().Get(v1.ConditionTypeDisruptionReason) != nil {
				why = append(why, "the DisruptionReason condition is still on the NodeClaim")
			}
			for n := range w.Cluster.Nodes() {
				if n.ProviderID() == cn.ProviderID() && n.MarkedForDeletion() {
					why = append(why, "the node is still marked for deletion in the cluster state")
				}
			}
			if len(why) > 0 {
				x.viol = append(x.viol, c01Violation{"candidate of a failed action did not return to service: " + rollbackClass(why), fmt.Sprintf("command %s failed; after a fault-free settle candidate %s: %s", cmdString(cmd), name, strings.Join(why, "; "))})
			}
		}
	}
	// ... and, whatever became of the commands (an action whose StartCommand failed half-way never shows up in the queue
	// at all): a node that exists, is not being deleted and is a candidate of NO command in flight is in service
	held := map[string]bool{}
	x.drainQueueSource()
	for _, c := range x.liveCommands() {
		if len(c.Candidates) == 0 || !x.isWork(c.Candidates[0].NodeClaim.Name) {
			continue // an entry nobody will ever reconcile is not a command in flight
		}
		for _, cn := range c.Candidates {
			held[cn.ProviderID()] = true
		}
	}
	for n := range w.Cluster.Nodes() {
		if n.Node == nil || n.NodeClaim == nil || held[n.ProviderID()] || x.deletedBy[n.NodeClaim.Name] != "" {
			continue
		}
		nc, node := w.GetNodeClaim(n.NodeClaim.Name), w.GetNode(n.Node.Name)
		if nc == nil || node == nil || nc.DeletionTimestamp != nil || node.DeletionTimestamp != nil {
			continue
		}
		var why []string
		for _, t := range node.Spec.Taints {
			if t.Key == v1.DisruptedTaintKey {
				why = append(why, "the disruption taint is still on the node")
			}
		}
		if nc.StatusConditions().Get(v1.ConditionTypeDisruptionReason) != nil {
			why = append(why, "the DisruptionReason condition is still on the NodeClaim")
		}
		if n.MarkedForDeletion() {
			why = append(why, "the node is still marked for deletion in the cluster state")
		}
		if env.Queue.HasAny(n.ProviderID()) {
			why = append(why, "the orchestration queue still maps the node to a command that is not in flight")
		}
		if len(why) > 0 {
			x.viol = append(x.viol, c01Violation{"node held by no command in flight is not in service after the settle: " + rollbackClass(why), fmt.Sprintf("after a fault-free settle node %s is a candidate of no command in flight, yet: %s", node.Name, strings.Join(why, "; "))})
		}
	}
}

func rollbackClass(why []string) string {
	var c []string
	for _, w := range why {
		switch {
		case strings.Contains(w, "taint"):
			c = append(c, "taint")
		case strings.Contains(w, "condition"):
			c = append(c, "condition")
		case strings.Contains(w, "marked"):
			c = append(c, "deletion-mark")
		case strings.Contains(w, "queue"):
			c = append(c, "queue-entry")
		}
	}
	return strings.Join(c, "+")
}

func init() {
	register("C08", "fault_enumeration", func(r *ev.Rec) {
		bound, steps := 2, 24
		if r.Tier == "thorough" {
			bound = 3
		}
		r.Rule = fmt.Sprintf("%d command shapes (drift 1->1, multi-node 2->1, emptiness delete-only, single-node delete, drift 1->2) are started by the real disruption controller and executed by the real orchestration queue with the real lifecycle controller launching / registering / initializing the replacements (kubelet events played by the harness, informers kept current); histories of %d steps: a fair default cycle (disruption round; per replacement lifecycle + kubelet; per command queue reconcile; clock +2s) and every history with <=%d deviations: any other enabled step inserted, clock +11m (past the retry window), controller restart (all in-memory state dropped), a second disruption round, a replacement vanishing (observed by the cluster cache at once, or one step late), another actor deleting a candidate, or a failure of any individual API / provider call. "+
			"Oracle: at every Delete of a candidate every replacement of its command exists and is Initialized and the command is in flight; live commands never share a provider id; after a fault-free settle the candidates of every command that ended unsuccessfully carry no disruption taint, no DisruptionReason condition and no deletion mark, and none was deleted by the queue. non-trivial = distinct (scenario, history)", len(c08Scenarios), steps, bound)
		r.Assumptions = []string{"interleaving at reconcile granularity; the StartCommand fan-out inside one round is not a schedule dimension", "informers are kept current after every step, except for the one-step lag of the replacement-vanishes-unobserved event"}
		// bounds outermost, lowest first: every scenario is covered with 2 deviations before the 3-deviation pass starts, so
		// the deadline of the thorough tier cuts the deepest pass only
		bounds := []int{bound}
		if bound > 2 {
			bounds = []int{2, bound}
		}
		for _, bound := range bounds {
			bound := bound
			enum.RunEveryShard(r, int64(len(c08Scenarios)), func(i int64, l *ev.Local) {
				sc := c08Scenarios[i]
				ex := &explore.Explorer{Bound: bound, MaxExecs: 400000, Stop: r.Expired, Shard: r.Shard, NShards: r.Shards}
				ex.Exec = func(run *explore.Run) {
					l.Mute = run.Replica
					x := &c08Run{env: buildDisrupt(sc.world()), sc: sc, deletedBy: map[string]string{}, deletedByCmd: map[string]*disruption.Command{}, everInit: map[string]bool{}}
					x.run(run, steps, !sc.fanout)
					l.Eval()
					l.Trace()
					l.Nontrivial(sc.name + "/" + strings.Join(x.history, ","))
					outcome := "no-command"
					if len(x.cmds) > 0 {
						outcome = fmt.Sprintf("commands=%d succeeded=%v", len(x.cmds), x.cmds[0].Succeeded)
					}
					l.Outcome(sc.name + ": " + outcome)
					if x.workModelOff {
						l.Outcome("queue work-item model off: the queue's source channel is not observable, every entry counts as work")
					}
					if x.latched {
						l.Outcome("candidate deleted after a replacement that had reported Initialized vanished (latched readiness; reported, not judged)")
					}
					for _, v := range x.viol {
						l.Violation(v.Sig, fmt.Sprintf("%s  [scenario=%s history=%v]", v.Msg, sc.name, x.history), map[string]any{"scenario": sc.name, "choices": run.Choices(), "faults": run.Plan(), "history": x.history, "calls": callStrings(x.env.W)})
					}
					if run.Used == bound && len(x.history)%6 == 0 {
						l.Sample(map[string]any{"scenario": sc.name, "history": x.history, "outcome": outcome})
					}
				}
				ex.Explore()
				noteDiverged(l, ex, "prefix")
				l.Transitions += int64(ex.Points)
				if ex.Capped {
					l.Outcome("exploration-capped")
					r.Exhaustive = false
				}
			})
			if !r.Expired() {
				// per shard process; summed by the parent: the pass is complete iff every shard completed it
				k := fmt.Sprintf("shards_that_completed_the_pass_with_%d_deviations_sum", bound)
				if v, ok := r.Extra[k].(float64); ok {
					r.Extra[k] = v + 1
				} else {
					r.Extra[k] = 1.0
				}
			}
		}
	})
}

func init() {
	registerReplay("C08", func(d map[string]any) []string {
		name, _ := d["scenario"].(string)
		for _, sc := range c08Scenarios {
			if sc.name != name {
				continue
			}
			x := &c08Run{env: buildDisrupt(sc.world()), sc: sc, deletedBy: map[string]string{}, deletedByCmd: map[string]*disruption.Command{}, everInit: map[string]bool{}}
			x.run(explore.ReplayPlan(intList(d["choices"]), intMap(d["faults"])), 24, !sc.fanout)
			fmt.Printf("scenario %s\nhistory %v\n", sc.name, x.history)
			for _, c := range x.cmds {
				fmt.Printf("command %s succeeded=%v\n", cmdString(c), c.Succeeded)
			}
			for _, c := range callStrings(x.env.W) {
				fmt.Println("  call:", c)
			}
			var sigs []string
			for _, v := range x.viol {
				fmt.Printf("violation %q: %s\n", v.Sig, v.Msg)
				sigs = append(sigs, v.Sig)
			}
			return sigs
		}
		fmt.Println("unknown scenario", name)
		return nil
	})
}
