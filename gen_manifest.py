#!/usr/bin/env python3
"""Generates MANIFEST.json from the table below (single source of truth for what is claimed)."""
import json, subprocess

CHECKS = {
 "C06": dict(level="exploration", design="§3 C06",
   technique="exhaustive enumeration of small clusters (node kinds x loads x policies x feature gate) through the real disruption controller; accepted commands judged by the admission oracle and an independent price oracle",
   text="Clusters are multisets of 1-3 nodes over (instance type, zone, capacity type) kinds of catalogs K1/K2 and a 17-step spot price ladder x nine per-node loads (empty, small/medium/large, zone / capacity-type selectors, zero-eviction-cost pod, daemon only, a pod no other node can host) x policy {WhenEmptyOrUnderutilized, Balanced} x SpotToSpot gate {off,on} plus minValues variants. The real disruption controller runs Emptiness, MultiNode and SingleNode consolidation for two rounds; every accepted command is judged: each reschedulable pod of the removed nodes has a home on a remaining initialized non-candidate node or on the single replacement and passes the C01 admission oracle there; every instance type listed by the replacement NodeClaim created in the API has a worst-case launch price (reserved > spot > on-demand, from the harness catalog) strictly below the combined candidate price; no on-demand fallback at or above it when a candidate is on-demand; spot-to-spot only with the gate on and, single-node, with >=15 options truncated to 15; nodes deleted as empty host no reschedulable pod with positive eviction cost.",
   note="Only accepted commands are judged (every candidate subset the search visits is visited by the real code). Prices and allocatables come from the harness's own catalog description."),
 "C18": dict(level="exploration", design="§3 C18",
   technique="exhaustive enumeration of candidate subsets x repetition counts x context states of the real disruption.SimulateScheduling, with before/after digests of API, cluster cache and provider catalog",
   text="Four disruption worlds (mixed nodes with host-port / deletion-cost pods and pending pods on a catalog that is deliberately not in price order; deleting + uninitialized nodes; reserved offerings with the gate on; two pools with PDB / do-not-disrupt pods) x every subset of size <=3 of the candidates returned by the real GetCandidates x 1..2 (quick) / 1..3 (thorough) consecutive SimulateScheduling calls x {normal, already-cancelled, 1 ns deadline} contexts, plus one Provisioner.Schedule pass per world. The digest of all API objects (incl. resourceVersions), of the cluster cache through exported accessors (usage, host-port / volume-limit probes, deletion marks, nominations, pod bookkeeping, consolidation state) and of the provider catalog INCLUDING slice order, availability and reservation counts must be identical before and after, and the call log must contain no write. For the provisioning pass only nominations may differ.",
   note="State is observed through exported accessors only; real-time timeouts inside the scheduler are not reached."),
 "C05": dict(level="exploration", design="§3 C05",
   technique="exhaustive enumeration of budget lists x instants x pool sizes against an independent budget oracle (arithmetic) and of pool compositions x budget lists x validation-delay events through the real disruption controller over consecutive rounds (system)",
   text="Arithmetic: every budget from the alphabet (7 node values x 6 reasons variants incl. the empty list x 8 schedule/duration variants incl. unparsable and duration-only), alone and paired with a second budget, at the six instants around each window edge, for N in 0..6 (quick) / 0..12 (thorough) and the three reasons, through MustGetAllowedDisruptions against an oracle with its own cron matcher. System: every pool composition of 2..4 (quick) / 2..5 (thorough) nodes over 8 node states x 11 budget lists x {no event, a healthy node turning NotReady / being deleted during the 15 s validation delay} through the real disruption controller (all methods) for 2/3 consecutive rounds with commands left in flight; per round and reason, newly selected candidates + nodes not ready or being deleted never exceed the oracle's allowance (flagged only if exceeded under both admissible denominators).",
   note="Cron subset limited to what the oracle's matcher implements. The arithmetic layer compares for equality (the statement defines the computation: rounding up, [hit, hit+duration), fail-closed)."),
 "C07": dict(level="exploration", design="§3 C07",
   technique="exhaustive enumeration of a blocker matrix (all assignments within a Hamming radius of the all-clear vector) through the real disruption controller, per method and with all methods",
   text="A two-node world in which node A is otherwise disruptable by every method. Nine blocker factors (managed, lifecycle stage, deleting/marked, nomination window open/expired, node annotation, nine pod-protection variants incl. duration-valued / terminal / terminating / PDB / two PDBs, Consolidatable true/false/absent, pool policy incl. static, terminationGracePeriod) x contents {empty, one pod} x drifted: every assignment with <=2 (quick) / <=3 (thorough) factors away from all-clear is run through the real disruption controller once per method and once with all five methods; node A must never be a candidate of a method for which the statement's conjunction (recomputed from the factor values) forbids it. Non-vacuity is measured: every method selects A in the all-clear cases.",
   note="Capacity-buffer placements are not modelled (feature gate off). Trusted: the harness's encoding of the statement in c07Case.mustNotSelect."),
 "C15": dict(level="exploration", design="§3 C15",
   technique="exhaustive enumeration of single-field NodePool edits (hash) and of validated NodePool requirement atoms x pods x every permitted launch through the real hash, provisioning, lifecycle and drift controllers",
   text="(a) Three base templates x every single-field edit of a closed list (template labels, annotations, taints, startupTaints, nodeClassRef, terminationGracePeriod in {unset,0s,30s,1m}, expireAfter in {Never,0s,10m,1h}; budgets, requirements, limits, weight, consolidation settings, list/map order, metadata/status): hashed edits must change NodePool.Hash(), the others must not. (b) Every satisfiable single-requirement NodePool on a custom / provider key x pods constraining the key: real hash controller -> provisioner -> NodeClaim -> real lifecycle controller under EVERY permitted launch (up to 4 quick / 12 thorough) -> real nodeclaim.disruption controller: never Drifted when fresh or two hours later, RequirementsDrifted when the pool is edited to exclude the node's zone (and cleared when restored), NodePoolDrifted after a hashed edit and a real hash-controller run, never across hash versions.",
   note="Provider-side IsDrifted returns no drift; NodePools that no label value can satisfy are excluded from (b)."),
 "C04": dict(level="exploration", design="§3 C04",
   technique="exhaustive enumeration of two-pass provisioning histories over every permitted launch choice and every lifecycle stage, judged by the independent admission oracle",
   text="Catalogs x NodePool configs x daemonsets x all batches of <=2 preference-free pods: pass 1 is the real Provisioner.Reconcile (batcher, Synced gate, Schedule, CreateNodeClaims); while the created NodeClaims are unlaunched a second Reconcile must list no pods and create nothing. Then for every permitted launch of each NodeClaim (cheapest-first, up to 3 quick / 8 thorough per claim) and every stage (launched, node appeared unregistered with/without hostname and with zero extended resources, registered, initialized) reached through the real lifecycle controller and kubelet events, pass 2 runs with the pods still pending: a pod placed on a NEW NodeClaim must be inadmissible on every in-flight node (launched type's allocatable) together with everything assigned there.",
   note="Trusted: oracle/admit.go; the provider contract implemented by the harness's choice provider. Final-state form of the oracle (nodes only fill up during a pass, so it cannot false-alarm)."),
 "C11": dict(level="model_checking", design="§3 C11",
   technique="deviation-bounded exhaustive exploration of informer delivery histories (deferred, duplicated, reordered deliveries) on the real cluster cache, differential + reference oracle at every quiescent point",
   text="8 mutation scripts are applied to the API; after each mutation every notified key is delivered to the REAL informer reconcilers at once or deferred, earlier keys may be re-delivered, and the still-unobserved keys are finally delivered in each of 12 orders; all histories with <=2 (quick) / <=3 (thorough) deviations are enumerated. At EVERY point where the latest version of every object has been observed the cache (through exported accessors: per-node pod/daemon cpu, host-port and volume-limit probes, disruption cost, deletion marks; per-pool totals and node counts) must equal two fresh caches fed the same objects in different orders and an independent recomputation from the API objects.",
   note="Deliveries are atomic (no preemption inside one informer reconcile). One genuine defect is recorded as a known finding (claim-only entry keeps pod aggregates after its Node is deleted)."),
 "C09": dict(level="fault_enumeration", design="§3 C09",
   technique="deviation-bounded exhaustive exploration of termination histories (reconcile orders, environment events, a failure at every API/provider call, restarts) on the real termination, lifecycle and eviction-queue code",
   text="13 termination scenarios are driven for 30 steps through the real node-termination controller, NodeClaim lifecycle controller (finalize path) and eviction queue on an API layer that emulates graceful pod deletion, PDB admission and two-phase instance deletion. All histories with <=1 (quick) / <=2 (thorough) deviations from a fair default cycle are enumerated: any other enabled reconcile or event inserted (clock jumps, node NotReady, instance vanishing, PDB flip, user deleting the Node, controller restart) or a failed API/provider call. At the instant of every finalizer-removing write the oracle checks cordon, remaining drainable pods, blocking volume attachments vs TGP, and the provider's instance table; at the end, no instance outlives its NodeClaim.",
   note="Trusted: fake API server + emulated graceful deletion; interleaving at reconcile granularity; a Node whose NodeClaim object is already gone is outside the statement."),
 "C10": dict(level="model_checking", design="§3 C10",
   technique="deviation-bounded exhaustive exploration of drain histories on the real terminator / eviction queue + exhaustive operation-sequence exploration of the real Queue (seam)",
   text="10 drain scenarios (tiers, do-not-disrupt true/expired/active duration, static, tolerating, grace periods, already terminating, PDB blocked / two PDBs, TGP none/60s/600s) are driven for 30 steps through the real controllers; all histories with <=1 (quick) / <=2 (thorough) deviations from a fair default cycle are enumerated. Every eviction create and every pod Delete is judged at the instant it is requested (eviction API only; no protected pod evicted; non-critical non-daemon pods first; direct delete only with a deadline, not before deadline minus the pod's grace, never grace 0). All operation sequences of length <=4/5 on the real eviction Queue check that a pod queued under an early deadline is never handled under a later one.",
   note="Trusted: emulated eviction sub-resource (PDB admission, UID precondition) and graceful deletion; interleaving at reconcile granularity (no preemption inside a reconcile)."),
 "C14": dict(level="fault_enumeration", design="§3 C14",
   technique="deviation-bounded exhaustive exploration of lifecycle histories (environment events, stale reads, a failure at every individual API write / provider call) on the real lifecycle controller",
   text="NodeClaims created by the real provisioner (plain, startup taint, requested extended resource, template taint) are driven through the real lifecycle controller for 6-7 rounds; each round is one environment event from a finite menu, then one Reconcile handed any NodeClaim version not older than the last one given. All histories with <=1 (quick) / <=2 (thorough) deviations from the happy path (non-default event, stale version, a failed API write or provider call incl. capacity errors) are enumerated. At the instant of every provider Create and every NodeClaim write the oracle checks: <=1 successful Create per NodeClaim without a restart, finalizer present at Create, each condition becomes True only with its observable preconditions, capacity errors delete the NodeClaim.",
   note="Trusted: fake API server; the menu of environment events; reads never fail (the property quantifies over writes and provider calls). Condition regressions under stale reads are counted, not judged (the statement constrains when conditions become true)."),
 "C13": dict(level="exploration", design="§3 C13",
   technique="exhaustive enumeration of the requirement closure (serialization) and of scheduler worlds / validated NodePool requirement atoms (whole path), compared with the label-set oracle at the API create",
   text="(a) Every requirement reachable by intersecting up to three atoms of the operator/value/bound alphabet is serialized by the real code and re-evaluated by the label-set oracle on an exact witness universe. (b) For the C01 worlds and for every single-requirement NodePool on a custom / provider key that the real RuntimeValidate accepts (x pods constraining that key, x both minValues policies) the NodeClaim observed at the API create is compared key by key with the scheduler's in-memory requirements, its instance-type list with the options and minValues floors, its requests with pods plus least daemon overhead, its labels/taints/hash with the template; a crash of the process is a violation.",
   note="Trusted: oracle/labelset.go; minValues floors recomputed from the harness catalog; NodePool.Hash() is used as given (C15 judges it)."),
 "C16": dict(level="fault_enumeration", design="§3 C16",
   technique="exhaustive state x clock-offset enumeration of four reaper controllers with a failure injected at every individual API/provider call (deviation-bounded fault exploration)",
   text="Expiration, garbage collection, liveness (through the lifecycle controller) and node repair are each reconciled on every state of a full product (flags x clock offsets -1s/0/+1s around each threshold; repair pools of 1..6/10 nodes with every unhealthy count), fault-free and with every way of failing one (quick) / two (thorough) of the calls the reconcile makes. Every Delete of a NodeClaim must be justified by the documented trigger computed from the scenario parameters, and must not follow a failed guarding lookup.",
   note="Trusted: the fake API server and the fault menu (500 on any call, 409 on optimistic-lock writes, provider error). Duplicate Nodes are enumerated but not judged. Only the safety direction is a violation; 'due but not deleted' is reported as an outcome count."),
 "C17": dict(level="exploration", design="§3 C17",
   technique="exhaustive small-scope enumeration of catalogs with shared reservations x pod batches x completion orders, oracle on the created NodeClaims",
   text="RESERVATION HALF ONLY. Catalogs whose reserved offerings share ids across instance types and NodePools (with differing advertised capacities and an exhausted one) x NodePool sets x all pod batches of <=3 (quick) / <=4 (thorough) shapes x preference policies x completion orders (2 workers, <=1 deviation): holders per reservation id never exceed the minimum advertised capacity, a holder's request admits only reserved launches with exactly its ids, a non-holder's request admits no reserved launch (no silent fallback in strict mode), the manager's guards never panic, and every placement passes the C01 admission oracle.",
   note="The DRA half of the statement (exclusive devices, shared capacity/counters) is NOT decided by this check: the allocator (~4k lines with CEL selectors) needs its own oracle, see DESIGN.md §5. Trusted: harness catalog description."),
 "C19": dict(level="exploration", design="§3 C19",
   technique="exhaustive small-scope enumeration x deviation-bounded exploration of template-evaluation completion orders (H1), commit-order trace, differential truncation check",
   text="Weighted NodePool sets x catalogs x existing capacity x all batches of <=2 preference-free pods are solved under every completion order of the parallel template evaluation (2 workers / <=1 deviation quick; 2,3,5 workers / <=3 deviations thorough). For the pod that opened each NodeClaim (commit trace from hook H1) every strictly heavier pool must be infeasible by the independent admission oracle. The same world is solved with an unlimited and with a truncated launch list; the truncated list must be a right-sized subset that drops no type with a strictly cheaper compatible available offering than a kept one.",
   note="Trusted: oracle/admit.go; limits are accounted most pessimistically so that only unambiguous weight inversions are flagged; equal weights are not ordered."),
 "C01": dict(level="exploration", design="§3 C01",
   technique="exhaustive small-scope enumeration of scheduler worlds x deviation-bounded exploration of candidate-evaluation completion orders (hook H1), judged by an independent kube-scheduler admission oracle",
   text="Every world in a closed product (catalogs x NodePool configs x existing/in-flight/deleting/unmanaged capacity x daemonsets x policies x all pod batches of <=2 shapes out of 20) is run through the real Provisioner.Schedule and CreateNodeClaims on an in-memory API server, under every completion order of the parallel candidate evaluation within the deviation bound; every placement is re-judged by an oracle that re-implements kube-scheduler's filters from the pods' ORIGINAL specs, on every (instance type, offering) the created NodeClaim permits. Complete within the alphabet; batches >2 (quick) and Go map-iteration order are outside it.",
   note="Trusted: oracle/admit.go (transcription of kube-scheduler filter semantics), the fake API server, the harness's catalog description (ITSpec). Label constraints are required on every permitted launch, resources on some compatible offering per type."),
 "C12": dict(level="exploration", design="§3 C12",
   technique="exhaustive small-scope enumeration of requirement atoms (pairs, triples, 4-fold products) against a set-semantics oracle on an exact witness universe",
   text="Every pair and triple of requirement atoms from a closed alphabet (8 operators x value sets x bounds incl. MaxInt/MinInt) is pushed through the real Has/Intersection/HasIntersection/Add, and every (A,B) with <=1 atom on a well-known and a custom key through Compatible/Intersects; each result is compared with Kubernetes label-matching semantics on a witness universe on which admitted sets are decided exactly. Complete within the alphabet; says nothing about value lists longer than 2 or more than 3 operands.",
   note="Trusted: the oracle's transcription of Kubernetes node-affinity matching (oracle/labelset.go). Compatibility is judged for one source requirement per key per side."),
 "C20": dict(level="model_checking", design="§3 C20",
   technique="explicit-state exploration of all operation sequences up to a depth on the real tracker, no state merging, against a last-four-outcomes reference",
   text="All sequences of length <=9 (quick) / <=11 (thorough) over {record success, record failure, set Healthy, set Unhealthy, reset} are run on the real nodepoolhealth.State; in every reached state Status() and both what-if evaluations are compared with a list-of-last-four reference and with really recording the outcome. The ring has 4 slots, so every (window, head position) state is reached well within the depth.",
   note="Trusted: the reference rule (Unknown iff empty, Unhealthy iff >=2 failures among the last <=4). Single NodePool UID."),
}

def main():
    checks = []
    for pid in sorted(CHECKS):
        c = CHECKS[pid]
        checks.append({
            "property_id": pid,
            "quick_cmd": f"./run.sh check {pid} quick",
            "thorough_cmd": f"./run.sh check {pid} thorough",
            "evidence_file": f"/verif/evidence/{pid}.json",
            "engine": "vc",
            "level_claimed": {"category": c["level"], "text": c["text"], "design_ref": c["design"]},
            "level_note": c["note"],
            "technique": c["technique"],
        })
    props = [json.loads(l)["id"] for l in open("/verif/properties.jsonl")]
    na = [{"property_id": p, "reason": "check not built yet in this round (planned, see DESIGN.md §3); not claimed until it exists"} for p in props if p not in CHECKS]
    m = {
        "version": 1,
        "setup_cmd": "./setup.sh",
        "hooks": {
            "guard": "verif",
            "enable": "go build -tags verif (done by ./run.sh on every invocation, from /repo's current working tree)",
            "baseline_off_cmd": "cd /repo && GOFLAGS=-mod=mod GOPROXY=off go test -json -vet=off -count=1 -timeout 25m ./...",
            "source_commits": HOOK_COMMITS,
            "add_only": True,
        },
        "engines": [{"name": "vc", "path": "/verif/cmd/vc", "serves_properties": sorted(CHECKS),
                     "kind_free_text": "hand-written bounded exhaustive explorer over the real Karpenter code on an in-memory API server: small-scope input enumeration (internal/enum) and deviation-bounded schedule/fault exploration (internal/explore)"}],
        "checks": checks,
        "not_applicable": na,
        "notes": "All checks run the implementation itself; known_findings.json lists genuine defects (fixed or recorded).",
    }
    json.dump(m, open("/verif/MANIFEST.json", "w"), indent=1)
    print("claimed:", sorted(CHECKS), "not claimed:", [x["property_id"] for x in na])

HOOK_COMMITS = ["336410b99"]
if __name__ == "__main__":
    main()
